"""C26 — Each received PING is answered exactly once with the same payload."""
from harness.props import _conn

PARTS = [0, 1, 3]      # result (events), output, connection state
WEIGHTS = dict(send_headers=8, send_data=4, end_stream=2, increment=1, push=1, ping=14, reset=2, close=1,
               update_settings=1, altsvc=0.3, prioritize=0.5, ack=1, probe=2, drain=4, receive=50)
RF = dict(headers=12, push=1, data=8, settings=6, window_update=5, ping=50, rst=3, priority=3, goaway=1,
          continuation=0.5, altsvc=1, unknown=2, bad=1)


def oracle(p):
    bad = []
    frames = _conn.new_frames(p)
    for i, (op, parts) in enumerate(zip(p['ops'], p['parts'])):
        if op[0] == 'Receive' and _conn.ok(parts) and not any(e[0][0] == 'GoAway' for e in op[1]):
            # (a received GOAWAY discards the pending output, C19: such batches are not judged here)
            want_acks = [list(e[0][2]) for e in op[1] if e[0][0] == 'Ping' and not e[0][1]]
            got_acks = [fr[2] for fr in frames[i] if fr[0] == 6 and fr[1] == 1]
            if want_acks != got_acks:
                bad.append({'rule': 'PING ACKs emitted differ from the PINGs received (count, payload or order)', 'step': i,
                            'detail': {'received': want_acks, 'acked': got_acks}})
            evs = parts[0][1]
            want_ev = [[9 if e[0][1] else 8, list(e[0][2])] for e in op[1] if e[0][0] == 'Ping']
            got_ev = [ev for ev in evs if ev[0] in (8, 9)]
            if want_ev != got_ev:
                bad.append({'rule': 'PingReceived / PingAckReceived events differ from the PING frames received', 'step': i,
                            'detail': {'frames': want_ev, 'events': got_ev}})
            if any(fr[0] == 6 and fr[1] == 0 for fr in frames[i]):
                bad.append({'rule': 'a PING without ACK was emitted while receiving', 'step': i, 'detail': frames[i]})
        if op[0] == 'Ping':
            pl = bytes(op[1])
            emitted = [fr for fr in frames[i] if fr[0] == 6]
            if len(pl) == 8 and _conn.ok(parts):
                if emitted != [[6, 0, list(pl)]] or len(frames[i]) != 1:
                    bad.append({'rule': 'ping() did not emit exactly one PING with the given payload', 'step': i, 'detail': frames[i]})
            if len(pl) != 8 and (_conn.err_name(parts) != 'ValueError' or frames[i]):
                bad.append({'rule': 'ping() accepted a payload that is not 8 bytes', 'step': i, 'detail': parts[0]})
    return bad


SPEC = dict(parts=PARTS, weights=WEIGHTS, rf_weights=RF, n_quick=250, n_thorough=6000, n_ops=28, oracle=oracle,
            nontrivial=lambda p: any(op[0] == 'Receive' and sum(1 for e in op[1] if e[0][0] == 'Ping') >= 1 for op in p['ops']),
            rule='ping-heavy programs: several PING / PING ACK frames per receive_data call interleaved with other frames, ping() with payloads of 0..9 bytes; '
                 'compared with the model on events, output and connection state; non-trivial = at least one received PING',
            extra_obligations=1)


def check(run):
    return _conn.conn_check(run, SPEC)


def replay(run, path):
    return _conn.conn_replay(run, path, oracle)
