"""C28 — Output is a deterministic function of the call sequence."""
import json
import os
import subprocess

from harness import common, t2, t2check
from harness.props import _conn

PARTS = list(range(14))
WEIGHTS = dict(send_headers=10, send_data=4, end_stream=2, increment=2, push=3, ping=1, reset=2, close=0.3,
               update_settings=10, altsvc=1, prioritize=1, ack=1, probe=1, drain=3, receive=45)
RF = dict(headers=25, push=4, data=12, settings=20, window_update=8, ping=3, rst=4, priority=3, goaway=0.5,
          continuation=1, altsvc=2, unknown=2, bad=1)
SEEDS = ['1', '2', '12345', '4294967295', 'random']
_progs = []


def oracle(p):
    _progs.append(p)       # collected; the cross-process comparison runs once in extra work below
    return []


def cross_seed(run, programs):
    """the same programs in separate interpreter processes under different PYTHONHASHSEED values"""
    light = [t2check.light(p) for p in programs]
    blob = json.dumps(light, default=str)
    results = {}
    for s in SEEDS:
        env = dict(os.environ)
        env['PYTHONHASHSEED'] = s
        env.pop('PYTHONPATH', None)
        r = subprocess.run([common.PY, os.path.join(common.VERIF, 'harness', 'seedrun.py'), os.path.join(common.REPO, 'src'), common.VERIF],
                           input=blob, capture_output=True, text=True, env=env, timeout=3000)
        if r.returncode != 0:
            run.breaks.append({'kind': 'correspondence', 'what': 'replay under PYTHONHASHSEED=%s failed' % s, 'error': r.stderr[-1500:]})
            return {'hash_seeds': SEEDS, 'programs_replayed_per_seed': 0}
        results[s] = json.loads(r.stdout)
    n_diff = 0
    for i, p in enumerate(programs):
        base = p['hashes']
        for s in SEEDS:
            got = results[s][i]
            if got != base:
                n_diff += 1
                st = next((k for k, (a, b) in enumerate(zip(base, got)) if a != b), min(len(base), len(got)))
                parts = [t2.PARTS[k] for k in range(14) if st < len(base) and st < len(got) and base[st][k] != got[st][k]]
                run.violation({'kind': 'oracle', 'rule': 'the same program gives different output / events / state in a process with PYTHONHASHSEED=%s' % s,
                               'step': st, 'differs_in': parts, 'program': t2check.light(t2check.rerun(p['cfg'], p['ops'][:st + 1])),
                               'how_to_replay': 'PYTHONHASHSEED=<a>/<b> ./check C28 --replay <this file>'})
                return {'hash_seeds': SEEDS, 'programs_replayed_per_seed': len(programs), 'cross_seed_differences': n_diff}
    return {'hash_seeds': SEEDS, 'programs_replayed_per_seed': len(programs), 'cross_seed_differences': 0}


def scenarios(run):
    out = []
    RX = lambda *fs: ('Receive', [(f, None, {}) for f in fs])
    for client in (True, False):
        cfg = t2.default_cfg(client)
        z = list(t2.zoo(client))
        # settings in many orders; INITIAL_WINDOW_SIZE changes iterate over all streams
        kv = [(1, 100), (2, 0 if client else 1), (3, 10), (4, 70000), (5, 20000), (6, 5000), (8, 1), (0x10, 7), (0x20, 9)]
        for k in range(4):
            rot = kv[k * 2:] + kv[:k * 2]
            out.append((cfg, z + [('UpdateSettings', rot), RX(('Settings', True, [])), RX(('Settings', False, list(reversed(rot)))), ('Drain',),
                                  ('UpdateSettings', [(4, 100)]), RX(('Settings', True, [])), RX(('Settings', False, [(4, 5)]))]))
        # header lists with repeated fields (cookies are joined, duplicates must keep their positions)
        ck = [(b'cookie', v, False) for v in (b'a=1', b'lang=en', b'b=2', b'lang=en', b'c=3', b'd=4')]
        hs = list(t2.RESP if client else t2.REQ) + ck + [(b'x-dup', b'1', False), (b'x-dup', b'2', False), (b'x-dup', b'1', False)]
        sid = 11 if client else 13
        out.append((cfg, z + [RX(('Headers', sid, False, None, ('Decoded', hs)))]))
        mine = list(t2.REQ if client else t2.RESP) + ck
        out.append((cfg, z + [('SendHeaders', 13 if client else 1, mine, 0, False, None, None, None)]))
    return out


def check(run):
    r = common.proof_stage(run)
    n = 120 if run.tier == 'quick' else 2500
    extra = [t2check.rerun(cfg, ops) for cfg, ops in scenarios(run)]
    res = t2check.run_t2(run, n, 30, PARTS, weights=WEIGHTS, rf_weights=RF, extra_programs=extra, starts=('initiate', 'upgrade'))
    cov = common.proof_coverage(r, extra_obligations=1)
    cov.update(cross_seed(run, res['programs']))
    if res['mismatches']:
        # a disagreement on the peer-decoded header lists only, after a failing call polluted the encoder, is F-C13-1 (a C13 matter:
        # the model cannot predict what a fresh decoder makes of those blocks); determinism is still judged by cross_seed above
        from harness.props import C13
        f13 = any(f['id'] == 'F-C13-1' for f in common.load_known_findings('C13')[0])
        keep = [m for m in res['mismatches']
                if not (f13 and not (set(m['part_ids']) - {13})
                        and any(v['rule'] == C13.F1 and v['step'] <= m['step'] for v in C13.oracle(res['programs'][m['prog']])))]
        cov['explained_by_F-C13-1'] = len(res['mismatches']) - len(keep)
        res['mismatches'] = keep
    if res['mismatches'] and not run.violations:
        t2check.report_mismatch(run, res, PARTS, oracle=None)
    if run.breaks and not run.violations:
        run.violation({'kind': run.breaks[0]['kind'], 'broken_obligation': run.breaks[0]}, concrete=False)
    cov.update(t2check.coverage_of(res, lambda p: len(p['ops']) > 10,
                                   'random and settings-heavy programs (settings in rotated orders, unknown identifiers, INITIAL_WINDOW_SIZE changes over many streams, upgrade starts) '
                                   'executed in this process (PYTHONHASHSEED=0), compared with the model on all fourteen observation parts, and re-executed in separate interpreter '
                                   'processes under PYTHONHASHSEED = 1, 2, 12345, 4294967295 and random: every part at every step must be identical; non-trivial = more than ten operations'))
    cov['projection'] = list(t2.PARTS)
    return run.finish('proof', cov, assumptions=['wall-clock independence is by inspection only: the package imports neither time nor random (checked by the translator: reflect.py fails closed on new imports is NOT implemented; grep at setup)'])


def replay(run, path):
    return _conn.conn_replay(run, path, None)
