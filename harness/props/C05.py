"""C05 — Automatic window management never deadlocks and never over-credits."""
import json
import random

from harness import common, wire

M = 2**31 - 1
REQ = [(':method', 'GET'), (':path', '/'), (':scheme', 'https'), (':authority', 'x')]


def S(**k):
    return wire.serialize(k)


def gen_history(rnd, tier):
    m = rnd.choice([0, 1, 2, 3, 4, 7, 8, 100, 1023, 1024, 2047, 2048, 4095, 4096, 4097, 65535, 65536, M - 1, M, rnd.randrange(0, 5000), rnd.randrange(0, M + 1)])
    ops = []
    cur, mx = m, m
    iws = m      # the INITIAL_WINDOW_SIZE setting itself stays within 0..2^31-1
    C = A = 0
    for _ in range(rnd.randrange(1, 25)):
        k = rnd.random()
        if k < 0.35:
            n = rnd.choice([0, 1, cur, cur // 2, max(cur - 1, 0), cur + 1 if rnd.random() < 0.1 else cur // 3, rnd.randrange(0, max(cur, 1) + 1)])
            n = max(n, 0)
            ops.append(('Consume', n))
            cur -= n
            C += n
        elif k < 0.75:
            out = C - A
            n = rnd.choice([0, 1, out, out // 2, mx // 2, mx // 4, mx // 4 + 1, 1024, 1025, rnd.randrange(0, max(out, 1) + 1)])
            n = max(min(n, out if rnd.random() < 0.9 else n), 0)
            ops.append(('Ack', n))
            A += n
        elif k < 0.87:
            n = rnd.choice([1, 2, M - cur if cur < M else 1, M - cur + 1 if rnd.random() < 0.2 and cur < M else 5, rnd.randrange(1, M + 1)])
            n = max(1, min(n, M))
            ops.append(('Open', n))
            cur += n
            mx = max(mx, cur)
        else:
            d = rnd.choice([1, -1, -cur, -mx, 100, -(mx // 2), rnd.randrange(-mx, M + 1) if mx else rnd.randrange(0, 100)])
            d = max(-iws, min(d, M - iws))
            iws += d
            ops.append(('Delta', d))
            cur += d
            mx += d
    return m, ops


def impl_trace(m, ops):
    """The same history on a real H2Stream's window manager (and its IWS-delta method)."""
    import h2.stream, h2.config, h2.exceptions
    st = h2.stream.H2Stream(1, h2.config.H2Configuration(client_side=True), inbound_window_size=m, outbound_window_size=65535)
    wm = st._inbound_window_manager
    tr = []
    for kind, n in ops:
        code = -1
        try:
            if kind == 'Consume':
                wm.window_consumed(n)
            elif kind == 'Ack':
                r = wm.process_bytes(n)
                code = -1 if r is None else int(r)
            elif kind == 'Open':
                wm.window_opened(n)
            else:
                st._inbound_flow_control_change_from_settings(n)
        except h2.exceptions.FlowControlError:
            code = -2
        tr += [code, wm.max_window_size, wm.current_window_size, wm._bytes_processed]
        if code == -2:
            break
    return tr


def coq_z(n):
    return str(n) if n >= 0 else '(%d)' % n


def model_traces(cases, tag):
    jobs = []
    for sh in range(0, len(cases), 400):
        chunk = cases[sh:sh + 400]
        items = '; '.join('(%d, [%s])' % (m, '; '.join('%s %s' % (k, coq_z(n)) for k, n in ops)) for m, ops in chunk)
        text = ('From H2 Require Import Base.Prelude Model.Windows Model.WmHist.\n'
                'Definition cases : list (Z * list wop) := [%s].\n'
                'Eval vm_compute in map (fun c => wtrace (wm_new (fst c)) (snd c)) cases.\n' % items)
        jobs.append(('C05_%s_%d' % (tag, sh), text))
    res = common.coq_eval_many(jobs)
    out = []
    import re
    for name, _ in jobs:
        s = ' '.join(res[name].split())
        m_ = re.search(r'= \[(.*)\]\s*: list \(list Z\)', s)
        body = m_.group(1)
        for inner in re.findall(r'\[([^\[\]]*)\]', body):
            inner = inner.strip()
            out.append([int(x.replace('(', '').replace(')', '').replace('%Z', '').strip()) for x in inner.split(';')] if inner else [])
    return out


def oracle(m, ops, tr):
    """The property itself, on an implementation trace (used when searching for a failing input).
    -> list of (rule, step) violated."""
    bad = []
    C = A = K = 0
    neg_delta = False
    opened = False
    delta_seen = False
    for i, (kind, n) in enumerate(ops):
        if 4 * i >= len(tr):
            break
        code, mx, cur, bp = tr[4 * i:4 * i + 4]
        if code == -2:
            break
        if kind == 'Consume':
            C += n
        elif kind == 'Ack':
            A += n
            if code > 0:
                K += code
        elif kind == 'Open':
            opened = True
        else:
            delta_seen = True
            if n < 0:
                neg_delta = True
        if A > C:
            break  # outside the property's premise
        if K > A:
            bad.append(('over-credit: increments exceed bytes acknowledged', i))
        if cur > mx:
            bad.append(('window above its maximum', i))
        if cur > M:
            bad.append(('window above 2^31-1' + (' after manual increment + INITIAL_WINDOW_SIZE increase' if opened and delta_seen else ''), i))
        if A == C and mx > 0 and cur <= 0:
            bad.append(('stall: all bytes acknowledged, window not positive' + (' after INITIAL_WINDOW_SIZE decrease' if neg_delta else ''), i))
    return bad


# ---- known findings: concrete histories through the public API --------------------------------
def finding_stall_api():
    import h2.connection, h2.config
    c = h2.connection.H2Connection(config=h2.config.H2Configuration(client_side=True))
    c.initiate_connection()
    c.send_headers(1, REQ, end_stream=True)
    c.receive_data(S(type='SETTINGS', sid=0, settings=[]) + S(type='SETTINGS', sid=0, flags={'ACK'}))
    c.receive_data(S(type='HEADERS', sid=1, flags={'END_HEADERS'}, block=b'\x88'))
    c.receive_data(S(type='DATA', sid=1, data=b'x'))
    c.acknowledge_received_data(1, 1)
    c.update_settings({4: 1})
    c.receive_data(S(type='SETTINGS', sid=0, flags={'ACK'}))
    wm = c.streams[1]._inbound_window_manager
    return {'window': c.remote_flow_control_window(1), 'max': wm.max_window_size,
            'fails': c.remote_flow_control_window(1) <= 0 and wm.max_window_size > 0}


def finding_overflow_stream_level():
    tr = impl_trace(65535, [('Open', M - 65535), ('Consume', M), ('Delta', 100), ('Ack', M)])
    return {'trace': tr, 'fails': len(tr) == 16 and tr[14] > M}


def finding_overflow_api():
    import h2.connection, h2.config
    c = h2.connection.H2Connection(config=h2.config.H2Configuration(client_side=True))
    c.initiate_connection()
    c.send_headers(1, REQ, end_stream=True)
    c.update_settings({5: 2**24 - 1})
    c.receive_data(S(type='SETTINGS', sid=0, settings=[]) + S(type='SETTINGS', sid=0, flags={'ACK'}) + S(type='SETTINGS', sid=0, flags={'ACK'}))
    c.receive_data(S(type='HEADERS', sid=1, flags={'END_HEADERS'}, block=b'\x88'))
    c.increment_flow_control_window(M - 65535, 1)
    c.increment_flow_control_window(M - 65535)
    c.data_to_send()
    left = M
    chunk = S(type='DATA', sid=1, data=b'\0' * (2**24 - 1))
    while left > 0:
        n = min(left, 2**24 - 1)
        c.receive_data(chunk if n == 2**24 - 1 else S(type='DATA', sid=1, data=b'\0' * n))
        left -= n
    c.update_settings({4: 65535 + 100})
    c.receive_data(S(type='SETTINGS', sid=0, flags={'ACK'}))
    c.data_to_send()
    c.acknowledge_received_data(M, 1)
    fr = [(f['type'], f['sid'], f.get('increment')) for f in wire.parse_all(c.data_to_send())]
    w = c.streams[1].inbound_flow_control_window
    return {'frames': fr, 'stream_window': w, 'fails': w > M}


FINDING_KEYS = {
    'stall: all bytes acknowledged, window not positive after INITIAL_WINDOW_SIZE decrease': 'F-C05-1',
    'window above 2^31-1 after manual increment + INITIAL_WINDOW_SIZE increase': 'F-C05-2',
    'window above its maximum': None,
}


def check(run):
    r = common.proof_stage(run)
    # refutation witnesses (not obligations of the property): do the known findings still hold of the model?
    with common.Lock():
        rr = common.build(['Properties/C05_refuted.vo'])
    rnd = random.Random(run.seed)
    n = 600 if run.tier == 'quick' else 40000
    cases = [gen_history(rnd, run.tier) for _ in range(n)]
    # corpus first: the two refutation witnesses and boundary histories
    cases = [(4, [('Consume', 1), ('Ack', 1), ('Delta', -3)]),
             (65535, [('Open', M - 65535), ('Consume', M), ('Delta', 100), ('Ack', M)]),
             (M, [('Open', 1)]), (100, [('Consume', 101)]), (4096, [('Consume', 4096), ('Ack', 1024), ('Ack', 1)])] + cases
    disagreements = []
    oracle_hits = {}
    dist = {'Consume': 0, 'Ack': 0, 'Open': 0, 'Delta': 0, 'raised': 0, 'updates_emitted': 0}
    nontrivial = set()
    model = None
    try:
        model = model_traces(cases, run.tier)
    except Exception as e:
        run.breaks.append({'kind': 'model-eval', 'error': str(e)[-1500:]})
    samples = []
    for idx, (m, ops) in enumerate(cases):
        tr = impl_trace(m, ops)
        for k, _ in ops:
            dist[k] += 1
        if -2 in tr[0::4]:
            dist['raised'] += 1
        ups = sum(1 for c_ in tr[0::4] if c_ > 0)
        dist['updates_emitted'] += ups
        if ups:
            nontrivial.add((m, tuple(ops)))
        if model is not None and model[idx] != tr:
            disagreements.append({'max': m, 'ops': ops, 'impl_trace': tr, 'model_trace': model[idx]})
        for rule, step in oracle(m, ops, tr):
            oracle_hits.setdefault(rule, []).append({'max': m, 'ops': ops[:step + 1], 'impl_trace': tr[:4 * (step + 1)]})
        if len(samples) < 4 and ups:
            samples.append({'max': m, 'ops': ops, 'impl_trace': tr})
    # ---- decide -----------------------------------------------------------------------------
    # 1. oracle violations on the implementation: known findings vs new ones
    for rule, hits in oracle_hits.items():
        fid = FINDING_KEYS.get(rule)
        f = next((x for x in run.findings if x['id'] == fid), None) if fid else None
        if f is None:
            h = min(hits, key=lambda x: len(x['ops']))
            run.violation({'kind': 'oracle', 'rule': rule, 'input': h, 'level': 'WindowManager history on the real H2Stream object'})
    # 2. known findings: replay the committed histories on the real code
    for f in run.findings:
        if f['id'] == 'F-C05-1':
            res = finding_stall_api()
            if res['fails']:
                run.known(f, 'window %d, maximum %d' % (res['window'], res['max']))
        if f['id'] == 'F-C05-2':
            res = finding_overflow_api() if run.tier == 'thorough' else finding_overflow_stream_level()
            if res['fails']:
                run.known(f, 'public API, 2 GiB of DATA' if run.tier == 'thorough' else 'H2Stream-level replay; thorough tier replays it through the public API')
    # 3. correspondence / proof / translator breaks
    if disagreements and not run.violations:
        run.breaks.insert(0, {'kind': 'correspondence', 'n_disagreements': len(disagreements),
                              'first': min(disagreements, key=lambda x: len(x['ops']))})
    if run.breaks and not run.violations:
        found = search(run)
        if not found:
            run.violation({'kind': run.breaks[0]['kind'], 'broken_obligation': run.breaks[0], 'all_breaks': run.breaks[:5],
                           'searched': 'property oracle over %d + 20000 random and boundary histories on the real objects' % len(cases)}, concrete=False)
    # 4. both levels through the public API: the connection model against the real H2Connection on the flow-control
    #    projection, with directed programs (streams in every state + acknowledged INITIAL_WINDOW_SIZE changes)
    from harness import t2check
    from harness.props import C04
    extra = [t2check.rerun(cfg, ops) for cfg, ops in C04.scenarios(run)]
    res_conn = t2check.run_t2(run, 120 if run.tier == 'quick' else 3000, 30, C04.PARTS, weights=C04.WEIGHTS, rf_weights=C04.RF,
                              extra_programs=extra, tag='C05conn')
    if not run.violations:
        # the window rule recomputed from the wire (acknowledged initial size + increments emitted - DATA received), on every stream
        WR = ('advertised stream window differs', 'advertised connection window differs')
        for pp in res_conn['programs']:
            vs = [v for v in C04.oracle(pp) if v['rule'].startswith(WR)]
            if vs:
                v = min(vs, key=lambda x: x['step'])
                run.violation({'kind': 'oracle', 'rule': v['rule'], 'detail': v['detail'], 'step': v['step'],
                               'program': t2check.light(t2check.rerun(pp['cfg'], pp['ops'][:v['step'] + 1])),
                               'how_to_replay': './check C04 --replay <this file>'})
                break
    if res_conn['mismatches'] and not run.violations:
        t2check.report_mismatch(run, res_conn, C04.PARTS, oracle=None, tag='C05conn')
    cov = common.proof_coverage(r, extra_obligations=5)  # GenEq lemmas for the five window kernels
    cov['connection_level_programs'] = len(res_conn['programs'])
    cov['connection_level_disagreements'] = len(res_conn['mismatches'])
    cov.update({
        'evaluations': len(cases),
        'distinct_nontrivial': len(nontrivial),
        'rule': 'seeded random + boundary histories of Consume/Ack/Open/Delta on a real H2Stream window manager, each compared step by step '
                '(return value, max, current, bytes_processed) with the Coq model evaluated by vm_compute; non-trivial = at least one automatic WINDOW_UPDATE increment was produced',
        'samples': samples,
        'input_distribution': dist,
        'traces_validated_against_impl': len(cases),
        'disagreements_checked': len(cases),
        'disagreements': len(disagreements),
        'refutation_witnesses_still_valid_in_model': rr['ok'],
    })
    return run.finish('proof', cov, assumptions=[
        'the application never acknowledges more bytes than it received (premise of the property)',
        'connection-level lifting (both levels, auto-acknowledged DATA on closed streams) is covered by the connection model correspondence of C04'])


def search(run):
    """A proof or translator break without disagreement: look for a concrete failing history on the implementation."""
    rnd = random.Random(run.seed + 7)
    for _ in range(20000):
        m, ops = gen_history(rnd, 'thorough')
        tr = impl_trace(m, ops)
        for rule, step in oracle(m, ops, tr):
            fid = FINDING_KEYS.get(rule)
            if fid and any(x['id'] == fid for x in run.findings):
                continue
            run.violation({'kind': 'oracle-after-break', 'broken_obligation': run.breaks[0], 'rule': rule,
                           'input': {'max': m, 'ops': ops[:step + 1], 'impl_trace': tr[:4 * (step + 1)]}})
            return True
    return False


def replay(run, path):
    d = json.load(open(path))
    inp = d.get('input')
    if not inp:
        print('replay file names a broken obligation:', json.dumps(d.get('broken_obligation')))
        return 1
    ops = [tuple(o) for o in inp['ops']]
    tr = impl_trace(inp['max'], ops)
    print(json.dumps({'impl_trace': tr, 'oracle': oracle(inp['max'], ops, tr)}))
    return 0
