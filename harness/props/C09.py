"""C09 — Stream identifiers are allocated and checked per RFC 7540 section 5.1.1."""
from harness import common, t2
from harness.props import _conn

PARTS = [0, 1, 4, 5, 8]     # result, output, tables, id watermarks, stream state machines
WEIGHTS = dict(send_headers=28, send_data=2, end_stream=3, increment=0.5, push=10, ping=0.3, reset=5, close=0.2,
               update_settings=0.5, altsvc=0.3, prioritize=2, ack=0.5, probe=8, drain=3, receive=40)
RF = dict(headers=45, push=12, data=4, settings=3, window_update=2, ping=0.5, rst=8, priority=14, goaway=0.3,
          continuation=1, altsvc=0.5, unknown=1, bad=0.5)
BIG_RULE = 'an id above 2^31-1 was accepted for a locally opened stream'


def oracle(p):
    bad = []
    frames = _conn.new_frames(p)
    client = p['cfg']['client']
    prev = None
    hi_out = 0
    for i, (op, parts) in enumerate(zip(p['ops'], p['parts'])):
        ho, hi = parts[5][1], parts[5][0]
        if prev is not None and (ho < prev[5][1] or hi < prev[5][0]):
            bad.append({'rule': 'a stream id watermark decreased', 'step': i, 'detail': {'before': prev[5], 'after': parts[5]}})
        if ho > 2**31 - 1:
            bad.append({'rule': BIG_RULE, 'step': i, 'detail': {'highest_outbound': ho, 'op': repr(op)[:120]}})
        if ho and ho % 2 != (1 if client else 0):
            bad.append({'rule': 'a locally opened id has the wrong parity', 'step': i, 'detail': ho})
        if hi and hi % 2 != (0 if client else 1):
            bad.append({'rule': 'a peer id of the wrong parity was accepted', 'step': i, 'detail': hi})
        if op[0] == 'NextStreamId' and prev is not None:
            h = prev[5][1]
            n = (1 if client else 2) if h == 0 else h + 2
            if n > 2**31 - 1:
                if _conn.err_name(parts) != 'NoAvailableStreamIDError':
                    bad.append({'rule': 'get_next_available_stream_id did not raise when ids are exhausted', 'step': i, 'detail': parts[0]})
            elif parts[0] != [0, [n]]:
                bad.append({'rule': 'get_next_available_stream_id is not the least unused id', 'step': i, 'detail': {'want': n, 'got': parts[0]}})
        if prev is not None and op[0] in ('SendHeaders', 'PushStream') and not _conn.ok(parts) and \
                _conn.err_name(parts) in ('StreamIDTooLowError', 'ProtocolError') and prev[5] != parts[5] and not frames[i]:
            # a refused id must not be booked
            sid = op[1] if op[0] == 'SendHeaders' else op[2]
            want_parity = (1 if client else 0) if op[0] == 'SendHeaders' else 0
            refused_by_id_rules = sid % 2 != want_parity or sid <= (prev[5][1] if sid % 2 == (1 if client else 0) else prev[5][0])
            if refused_by_id_rules and (parts[5][1] == sid or parts[5][0] == sid):
                bad.append({'rule': 'a refused stream id moved a watermark', 'step': i, 'detail': {'before': prev[5], 'after': parts[5], 'op': repr(op)[:120]}})
        if prev is not None and op[0] == 'Receive' and all(e[0][0] == 'Priority' for e in op[1]) and prev[3] != 3:
            if prev[5] != parts[5] or prev[4] != parts[4] or prev[8] != parts[8]:
                bad.append({'rule': 'a PRIORITY frame opened or closed a stream', 'step': i, 'detail': {'before': [prev[5], prev[4]], 'after': [parts[5], parts[4]]}})
        # a peer HEADERS re-using the id of a stream that is closed and already dropped from the stream table: a stream error
        # (RST_STREAM, no exception) if that stream was reset, a STREAM_CLOSED connection error if it ended normally
        if prev is not None and op[0] == 'Receive' and prev[3] in (1, 2) and len(op[1]) == 1 and op[1][0][0][0] == 'Headers':
            sid = op[1][0][0][1]
            how = dict((x[0], x[1]) for x in prev[4][1]).get(sid)
            live = any(st[0] == sid for st in prev[8])
            if how is not None and not live:
                if how in (3, 4) and not _conn.ok(parts):
                    bad.append({'rule': 'HEADERS re-using the id of a reset stream was a connection error instead of a stream error', 'step': i,
                                'detail': {'stream': sid, 'closed_by': how, 'outcome': parts[0]}})
                if how in (3, 4) and _conn.ok(parts) and not any(fr[0] == 3 and fr[1] == sid for fr in frames[i]):
                    bad.append({'rule': 'HEADERS re-using the id of a reset stream was not answered with RST_STREAM', 'step': i,
                                'detail': {'stream': sid, 'closed_by': how, 'frames': frames[i][:3]}})
                if how in (1, 2) and not (_conn.err_name(parts) == 'StreamClosedError' and parts[0][2] == 5):
                    bad.append({'rule': 'HEADERS re-using the id of a stream that ended normally was not a STREAM_CLOSED connection error', 'step': i,
                                'detail': {'stream': sid, 'closed_by': how, 'outcome': parts[0]}})
        prev = parts
    return bad


def finding_of(v):
    return 'F-C09-1' if v['rule'] == BIG_RULE else None


def scenarios(run):
    out = []
    M = 2**31 - 1
    for client in (True, False):
        cfg = t2.default_cfg(client)
        ops = list(t2.zoo(client))
        mine = 13 if client else 6
        theirs = 6 if client else 13
        ops += [('NextStreamId',), ('SendHeaders', mine - 4, t2.REQ, 0, False, None, None, None),       # too low
                ('SendHeaders', theirs + 100, t2.REQ if client else t2.RESP, 0, False, None, None, None),  # wrong parity
                ('PushStream', 1, 3, t2.REQ, 0), ('PushStream', 1, 2, t2.REQ, 0), ('NextStreamId',),
                ('Receive', [(('Headers', theirs + 100 if not client else 3, False, None, ('Decoded', t2.REQ)), None, {})])]
        out.append((cfg, ops))
        # ids at the 2^31-1 boundary
        if client:
            out.append((cfg, [('Initiate',), ('SendHeaders', M - 2, t2.REQ, 0, True, None, None, None), ('NextStreamId',),
                              ('SendHeaders', M, t2.REQ, 0, True, None, None, None), ('NextStreamId',),
                              ('SendHeaders', M + 2, t2.REQ, 0, True, None, None, None), ('NextStreamId',)]))
        else:
            out.append((cfg, [('Initiate',), ('Receive', [(('Headers', M, False, None, ('Decoded', t2.REQ)), None, {})]),
                              ('PushStream', M, M - 1, t2.REQ, 0), ('NextStreamId',), ('PushStream', M, M + 1, t2.REQ, 0)]))
        # re-used ids of pushed streams: a server promises an id above / below the client's highest id, the pushed stream is reset or
        # ends normally, the client opens another stream (closed streams are then dropped from the table), HEADERS arrive on the old id
        if not client:
            RX = lambda *fs: ('Receive', [(f, None, {}) for f in fs])
            for promised, nxt in ((4, 3), (2, 3), (6, 9), (8, 5)):
                for ending in ('reset', 'peer_reset', 'ended'):
                    o = [('Initiate',), RX(('Settings', False, []), ('Headers', 1, False, None, ('Decoded', t2.REQ))),
                         ('PushStream', 1, promised, t2.REQ, 0)]
                    if ending == 'reset':
                        o += [('ResetStream', promised, 8)]
                    elif ending == 'peer_reset':
                        o += [RX(('RstStream', promised, 8))]
                    else:
                        o += [('SendHeaders', promised, t2.RESP, 0, True, None, None, None)]
                    o += [RX(('Headers', nxt, False, None, ('Decoded', t2.REQ))), ('OpenInbound',),
                          RX(('Headers', promised, False, None, ('Decoded', t2.REQ))), ('OpenInbound',)]
                    out.append((cfg, o))
        # stream errors vs connection errors for re-used ids
        ops2 = list(t2.zoo(client))
        for sid in (5, 7, 9, 3):
            ops2 = list(t2.zoo(client)) + [('OpenInbound',), ('OpenOutbound',),
                                           ('Receive', [(('Headers', sid, False, None, ('Decoded', t2.RESP if client else t2.REQ)), None, {})])]
            out.append((cfg, ops2))
    return out


SPEC = dict(parts=PARTS, weights=WEIGHTS, rf_weights=RF, n_quick=300, n_thorough=8000, n_ops=30, oracle=oracle, finding_of=finding_of,
            scenarios=scenarios,
            nontrivial=lambda p: sum(1 for parts in p['parts'] if parts[5] != [0, 0]) > 3,
            rule='stream-opening heavy programs: user-chosen ids around both watermarks (in order, out of order, wrong parity, above 2^31-1), pushes, '
                 'peer HEADERS / PUSH_PROMISE with ids around the watermarks on reset / ended / forgotten streams, PRIORITY on arbitrary ids; '
                 'compared with the model on result, output, stream tables, watermarks and stream state; non-trivial = streams were opened',
            extra_obligations=3)


def check(run):
    with common.Lock():
        common.build(['Properties/C09_refuted.vo'])
    return _conn.conn_check(run, SPEC)


def replay(run, path):
    return _conn.conn_replay(run, path, oracle)
