"""C03 — Outbound DATA never exceeds the peer's flow-control windows."""
from harness import t2
from harness.props import _conn

PARTS = [0, 1, 6, 9]      # result, output, connection flow control, stream flow control
WEIGHTS = dict(send_headers=14, send_data=30, end_stream=4, increment=1, push=1, ping=0.5, reset=2, close=0.2,
               update_settings=1, altsvc=0.3, prioritize=0.5, ack=1, probe=8, drain=2, receive=30)
RF = dict(headers=18, push=2, data=5, settings=22, window_update=40, ping=2, rst=4, priority=2, goaway=0.5,
          continuation=0.5, altsvc=1, unknown=1, bad=1)


def oracle(p):
    """Independent recomputation of the connection-level send window from the wire history, and the
    call-level rules (fits / min / one byte more) from the windows the implementation reports."""
    bad = []
    spec_conn = 65535
    valid = True
    # per-stream window of the peer, from the wire alone: a stream starts at the peer's INITIAL_WINDOW_SIZE in force when it is
    # created and every later change is added to it, so at any time it is  IWS(now) + WINDOW_UPDATEs(sid) - DATA(sid)
    iws, wu, sent = 65535, {}, {}
    frames = _conn.new_frames(p)
    prev = None
    for i, (op, parts) in enumerate(zip(p['ops'], p['parts'])):
        for fr in frames[i]:
            if fr[0] == 0:      # DATA: [0, sid, len, es, pad]
                fc = fr[2] + (fr[4][0] + 1 if fr[4] else 0)
                # (an empty DATA frame consumes nothing: RFC 7540 6.9.1 allows it when a window is exhausted or, after a SETTINGS change, negative)
                if valid and fc > spec_conn and fc > 0:
                    bad.append({'rule': 'DATA exceeds the connection window computed from the wire history', 'step': i,
                                'detail': {'fc': fc, 'window': spec_conn}})
                spec_conn -= fc
                sw_wire = iws + wu.get(fr[1], 0) - sent.get(fr[1], 0)
                if valid and fc > sw_wire and fc > 0:
                    bad.append({'rule': 'DATA exceeds the stream window computed from the wire history (INITIAL_WINDOW_SIZE + WINDOW_UPDATEs - DATA sent)',
                                'step': i, 'detail': {'fc': fc, 'stream': fr[1], 'window': sw_wire}})
                sent[fr[1]] = sent.get(fr[1], 0) + fc
                if prev is not None:
                    sw = {s[0]: s[1] for s in prev[9]}.get(fr[1])
                    if sw is not None and fc > sw and fc > 0:
                        bad.append({'rule': 'DATA exceeds the stream window', 'step': i, 'detail': {'fc': fc, 'stream_window': sw}})
        if op[0] == 'Receive':
            if _conn.ok(parts):
                for e in op[1]:
                    if e[0][0] == 'WindowUpdate' and e[0][1] == 0:
                        spec_conn += e[0][2]
                    elif e[0][0] == 'WindowUpdate':
                        wu[e[0][1]] = wu.get(e[0][1], 0) + e[0][2]
                    elif e[0][0] == 'Settings' and not e[0][1]:
                        for k, v in e[0][2]:
                            if k == 4:
                                iws = v
            else:
                valid = False    # partially processed batch: the wire-level sum is no longer known exactly
        if valid and parts[6][0] != spec_conn and op[0] != 'Receive':
            bad.append({'rule': 'connection send window differs from 65535 + WINDOW_UPDATEs - DATA sent', 'step': i,
                        'detail': {'reported': parts[6][0], 'recomputed': spec_conn}})
            valid = False
        if op[0] == 'SendData' and prev is not None:
            sid, ln, es, pad = op[1], op[2], op[3], op[4]
            sw = {s[0]: s[1] for s in prev[9]}.get(sid)
            if sw is not None and (pad is None or 0 <= pad <= 255):
                fs = ln + (pad + 1 if pad is not None else 0)
                w = min(prev[6][0], sw)
                if fs > w:
                    if _conn.err_name(parts) != 'FlowControlError':
                        bad.append({'rule': 'send_data above the window did not raise FlowControlError', 'step': i,
                                    'detail': {'size': fs, 'window': w, 'outcome': parts[0]}})
                    elif frames[i]:
                        bad.append({'rule': 'a refused send_data emitted frames', 'step': i, 'detail': frames[i][:2]})
                elif _conn.err_name(parts) == 'FlowControlError':
                    bad.append({'rule': 'send_data within the window raised FlowControlError', 'step': i,
                                'detail': {'size': fs, 'window': w}})
        if op[0] == 'LocalWindow' and _conn.ok(parts) and prev is not None:
            sw = {s[0]: s[1] for s in prev[9]}.get(op[1])
            if sw is not None and parts[0][1] != [min(prev[6][0], sw)]:
                bad.append({'rule': 'local_flow_control_window is not the minimum of the two windows', 'step': i,
                            'detail': {'answer': parts[0][1], 'conn': prev[6][0], 'stream': sw}})
        prev = parts
    return bad


def scenarios(run):
    """INITIAL_WINDOW_SIZE changes reaching streams in every state the library can then send DATA from: reserved by a push and
    activated later, open, half-closed (remote); the window, a send of exactly the window, one byte more."""
    out = []
    RX = lambda *fs: ('Receive', [(f, None, {}) for f in fs])
    H = lambda sid, hs, es=False: ('SendHeaders', sid, hs, 0, es, None, None, None)
    for seq in ((100,), (0, 100), (100, 70000, 50), (70000, 100)):
        tail = []
        for v in seq:
            tail.append(RX(('Settings', False, [(4, v)])))
        w = seq[-1]
        # server: stream 1 open then answered, stream 2 / 4 reserved while the setting changes, 4 activated before the last change
        ops = [('Initiate',), RX(('Settings', False, []), ('Headers', 1, False, None, ('Decoded', t2.REQ))),
               ('PushStream', 1, 2, t2.REQ, 0), ('PushStream', 1, 4, t2.REQ, 0)] + tail[:-1] + [H(4, t2.RESP)] + tail[-1:] + \
              [H(2, t2.RESP), H(1, t2.RESP)]
        for sid in (2, 4, 1):
            ops += [('LocalWindow', sid), ('SendData', sid, w + 1, False, None), ('SendData', sid, w, False, None),
                    ('SendData', sid, 1, False, None), ('LocalWindow', sid)]
        out.append((t2.default_cfg(False), ops))
        # client: stream 1 open, stream 3 opened between the changes, padding counted
        ops = [('Initiate',), H(1, t2.REQ)] + tail[:-1] + [H(3, t2.REQ)] + tail[-1:]
        for sid in (1, 3):
            ops += [('LocalWindow', sid), ('SendData', sid, max(w - 1, 0), False, 1), ('SendData', sid, max(w - 2, 0), False, 1),
                    ('SendData', sid, 1, True, None), ('LocalWindow', sid)]
        out.append((t2.default_cfg(True), ops))
    return out


SPEC = dict(
    parts=PARTS, weights=WEIGHTS, rf_weights=RF, n_quick=320, n_thorough=8000, n_ops=32,
    oracle=oracle, scenarios=scenarios,
    nontrivial=lambda p: any(fr[0] == 0 for fs in _conn.new_frames(p) for fr in fs),
    rule='programs generated by walking the implementation with a send_data / WINDOW_UPDATE / SETTINGS(INITIAL_WINDOW_SIZE) heavy profile '
         '(sizes drawn from the live window, window+-1, frame-size limit+-1, padding 0/1/255/out of range); every step compared with the Coq model on '
         'result, output, connection and stream flow-control state; non-trivial = at least one DATA frame was emitted',
    extra_obligations=2,   # the two send_data guards extracted from the source
    assumptions=['received WINDOW_UPDATE increments are 1..2^31-1 (hyperframe rejects others before h2 sees them)'],
)


def check(run):
    return _conn.conn_check(run, SPEC)


def replay(run, path):
    return _conn.conn_replay(run, path, oracle)
