"""C10 — Concurrent-stream limits are respected and enforced."""
from harness import common, t2
from harness.props import _conn

PARTS = [0, 1, 4, 5, 8, 11, 12]
WEIGHTS = dict(send_headers=28, send_data=3, end_stream=8, increment=0.5, push=8, ping=0.3, reset=8, close=0.2,
               update_settings=6, altsvc=0.3, prioritize=0.5, ack=0.5, probe=10, drain=3, receive=40)
RF = dict(headers=45, push=6, data=6, settings=18, window_update=1, ping=0.5, rst=10, priority=1, goaway=0.2,
          continuation=0.5, altsvc=0.5, unknown=0.5, bad=0.5)
RESERVED_RULE = 'more outbound streams open than the peer allows after activating reserved (pushed) streams'
OPEN_STATES = (3, 4, 5)


def counts(parts, parity):
    return sum(1 for s in parts[8] if s[1] in OPEN_STATES and s[0] % 2 == parity)


def remote_mcs(parts):
    for k, q in parts[12]:
        if k == 3 and q and q[0]:
            return q[0][0]
    return 2**32 + 1


def local_mcs(parts):
    for k, q in parts[11]:
        if k == 3 and q and q[0]:
            return q[0][0]
    return 2**32 + 1


def oracle(p):
    bad = []
    client = p['cfg']['client']
    mine, theirs = (1, 0) if client else (0, 1)
    prev = None
    for i, (op, parts) in enumerate(zip(p['ops'], p['parts'])):
        n_out = counts(parts, mine)
        if prev is not None and n_out > remote_mcs(parts) and n_out > counts(prev, mine) and remote_mcs(parts) == remote_mcs(prev):
            was_reserved = False
            if op[0] == 'SendHeaders':
                st = {s[0]: s[1] for s in prev[8]}.get(op[1])
                was_reserved = st == 2
            bad.append({'rule': RESERVED_RULE if was_reserved else 'more outbound streams open than the peer allows', 'step': i,
                        'detail': {'open': n_out, 'limit': remote_mcs(parts), 'op': repr(op)[:100]}})
        if op[0] == 'OpenOutbound' and _conn.ok(parts) and parts[0][1] != [n_out]:
            bad.append({'rule': 'open_outbound_streams differs from the number of open / half-closed outbound streams', 'step': i,
                        'detail': {'answer': parts[0][1], 'count': n_out}})
        if op[0] == 'OpenInbound' and _conn.ok(parts) and parts[0][1] != [counts(parts, theirs)]:
            bad.append({'rule': 'open_inbound_streams differs from the number of open / half-closed inbound streams', 'step': i,
                        'detail': {'answer': parts[0][1], 'count': counts(parts, theirs)}})
        if prev is not None and op[0] == 'SendHeaders' and prev[3] != 3:
            sid = op[1]
            known = any(s[0] == sid for s in prev[8])
            if not known:
                room = counts(prev, mine) + 1 <= remote_mcs(prev)
                # a client is refused with TooManyStreamsError; a server cannot open a stream this way at all (fix 12650a7):
                # it is refused with the lookup error whatever the limit
                if not room and (_conn.err_name(parts) != 'TooManyStreamsError' if p['cfg']['client'] else _conn.ok(parts)):
                    bad.append({'rule': 'a stream was opened (or another error reported) beyond the peer limit', 'step': i,
                                'detail': {'open': counts(prev, mine), 'limit': remote_mcs(prev), 'outcome': parts[0]}})
                if room and _conn.err_name(parts) == 'TooManyStreamsError':
                    bad.append({'rule': 'TooManyStreamsError although there was room under the peer limit', 'step': i,
                                'detail': {'open': counts(prev, mine), 'limit': remote_mcs(prev)}})
        if prev is not None and op[0] == 'Receive' and prev[3] != 3 and len(op[1]) == 1 and op[1][0][0][0] == 'Headers':
            sid = op[1][0][0][1]
            known = any(s[0] == sid for s in prev[8])
            if not known and sid != 0:
                room = counts(prev, theirs) + 1 <= local_mcs(prev)
                refused = _conn.err_name(parts) == 'TooManyStreamsError'
                if room and refused:
                    bad.append({'rule': 'a peer HEADERS within the acknowledged local limit was refused', 'step': i,
                                'detail': {'open': counts(prev, theirs), 'limit': local_mcs(prev)}})
                if not room and not refused:
                    bad.append({'rule': 'a peer HEADERS beyond the acknowledged local limit was not refused with TooManyStreamsError', 'step': i,
                                'detail': {'open': counts(prev, theirs), 'limit': local_mcs(prev), 'outcome': parts[0]}})
        prev = parts
    return bad


def finding_of(v):
    return 'F-C10-1' if v['rule'] == RESERVED_RULE else None


def scenarios(run):
    out = []
    RX = lambda *fs: ('Receive', [(f, None, {}) for f in fs])
    # the known finding
    out.append((t2.default_cfg(False), [('Initiate',), RX(('Settings', False, [(3, 1)]), ('Headers', 1, False, None, ('Decoded', t2.REQ))),
                                        ('PushStream', 1, 2, t2.REQ, 0), ('PushStream', 1, 4, t2.REQ, 0),
                                        ('SendHeaders', 2, t2.RESP, 0, False, None, None, None), ('OpenOutbound',),
                                        ('SendHeaders', 4, t2.RESP, 0, False, None, None, None), ('OpenOutbound',)]))
    # limits around the current count, refused opens retried, limit lowered below the count
    for client in (True, False):
        for lim in (0, 1, 2, 3):
            ops = [('Initiate',), RX(('Settings', False, [(3, lim)]))]
            if client:
                for sid in (1, 3, 5, 5, 7):
                    ops += [('SendHeaders', sid, t2.REQ, 0, False, None, None, None), ('OpenOutbound',)]
                ops += [('EndStream', 1), RX(('Headers', 1, True, None, ('Decoded', t2.RESP))), ('OpenOutbound',),
                        ('SendHeaders', 7, t2.REQ, 0, False, None, None, None), ('SendHeaders', 7, t2.REQ, 0, False, None, None, None), ('OpenOutbound',)]
            else:
                ops += [('UpdateSettings', [(3, lim)]), RX(('Settings', True, []))]
                for sid in (1, 3, 5, 7):
                    ops += [RX(('Headers', sid, False, None, ('Decoded', t2.REQ))), ('OpenInbound',)]
            out.append((t2.default_cfg(client), ops))
    # the peer lowers its limit to (or strictly below) the number of streams already open: every further open is refused
    for first in (None, 5, 3):
        for lim in (0, 1, 2, 3):
            ops = [('Initiate',), RX(('Settings', False, [(3, first)] if first is not None else []))]
            for sid in (1, 3, 5):
                ops += [('SendHeaders', sid, t2.REQ, 0, False, None, None, None)]
            ops += [('OpenOutbound',), RX(('Settings', False, [(3, lim)])),
                    ('SendHeaders', 7, t2.REQ, 0, False, None, None, None), ('OpenOutbound',),
                    ('SendHeaders', 9, t2.REQ, 0, True, None, None, None), ('OpenOutbound',)]
            out.append((t2.default_cfg(True), ops))
    for client in (True, False):
        out.append((t2.default_cfg(client), list(t2.zoo(client)) + [('OpenOutbound',), ('OpenInbound',), ('OpenOutbound',)]))
    return out


SPEC = dict(parts=PARTS, weights=WEIGHTS, rf_weights=RF, n_quick=300, n_thorough=8000, n_ops=34, oracle=oracle, finding_of=finding_of,
            scenarios=scenarios,
            nontrivial=lambda p: any(op[0] in ('OpenOutbound', 'OpenInbound') for op in p['ops']) and max(len(x[8]) for x in p['parts']) >= 2,
            rule='open / close / reset / push churn with MAX_CONCURRENT_STREAMS changed on either side (values 0..5 and 100) and acknowledged at arbitrary points, '
                 'refused opens retried with the same id; compared with the model on result, output, stream tables, ids, stream state and both settings objects; '
                 'non-trivial = counters were read with at least two streams present',
            extra_obligations=2)


def check(run):
    with common.Lock():
        common.build(['Properties/C10_refuted.vo'])
    return _conn.conn_check(run, SPEC)


def replay(run, path):
    return _conn.conn_replay(run, path, oracle)
