"""Byte-level fuzzing of the real H2Connection.receive_data (C17): structurally valid traffic with mutated fields, arbitrary HPACK
blocks and CONTINUATION chains, random byte mutation of valid traffic, arbitrary chunking, clients and servers, all
header_encoding / validation configurations, also after the connection has been closed by an earlier error."""
import random

import hpack

from harness import wire, t2

S = wire.serialize
WEIRD_HEADERS = [
    [(b'', b'empty-name')], [(b':method', b'GET'), (b'', b'')], [(b' x', b'lead')], [(b'x ', b'trail')], [(b'x', b' v')], [(b'x', b'v\t')],
    [(b'X-Up', b'v')], [(b'\xff\xfe', b'v')], [(b'x', b'\xff\xfe\xfd')], [(b':path', b'')], [(b':status', b'abc')], [(b':status', b'')],
    [(b'content-length', b'-1')], [(b'content-length', b'1e3')], [(b'content-length', b'\xff')], [(b'content-length', b'')],
    [(b'te', b'gzip')], [(b'connection', b'close')], [(b':unknown', b'x')], [(b'x', b'y'), (b':method', b'GET')],
    [(b':method', b'GET'), (b':method', b'GET')], [(b'cookie', b'a=b'), (b'cookie', b'')], [(b':authority', b'a'), (b'host', b'b')],
    [(b'\x00', b'\x00')], [(b':', b'')], [(b'x' * 5000, b'y' * 5000)],
]


def hlist(rnd, client):
    """a header list: usually a valid request (for servers) / response (for clients), sometimes with a weird entry spliced in"""
    base = list(rnd.choice(t2.RESP_POOL + [t2.INFO] if client else t2.REQ_POOL))
    hs = [(n, v) for n, v, _ in base]
    r = rnd.random()
    if r < 0.35:
        w = rnd.choice(WEIRD_HEADERS)
        pos = rnd.randrange(len(hs) + 1)
        hs = hs[:pos] + list(w) + hs[pos:]
    elif r < 0.45:
        hs = list(rnd.choice(WEIRD_HEADERS))
    elif r < 0.5:
        hs = []
    return hs


def block(rnd, enc, client):
    r = rnd.random()
    if r < 0.12:
        return bytes(rnd.randrange(256) for _ in range(rnd.choice([0, 1, 2, 5, 30])))      # arbitrary HPACK bytes
    b = enc.encode(hlist(rnd, client), huffman=rnd.random() < 0.5)
    if r < 0.2 and b:
        b = bytearray(b)
        b[rnd.randrange(len(b))] = rnd.randrange(256)
        b = bytes(b)
    if r < 0.24:
        b = b'\x3f\xe1\xff\x03' + b           # dynamic table size update beyond the limit
    return b


def deviant(rnd, enc, client, sids):
    """one frame (or header block) with a field out of line"""
    out = []
    k = rnd.random()
    sid = rnd.choice(sids + [0, 7, 2 ** 31 - 1])
    if k < 0.3:
        b = block(rnd, enc, client)
        n = rnd.choice([0, 0, 1, 2, 5])
        cuts = sorted(rnd.randrange(len(b) + 1) for _ in range(n))
        pieces = [b[a:c] for a, c in zip([0] + cuts, cuts + [len(b)])]
        for i, pc in enumerate(pieces):
            fl = set()
            if i == len(pieces) - 1 and rnd.random() < 0.9:
                fl.add('END_HEADERS')
            if i == 0:
                ty = 'PUSH_PROMISE' if rnd.random() < 0.2 else 'HEADERS'
                f = {'type': ty, 'sid': sid or 1, 'flags': fl, 'block': pc}
                if ty == 'HEADERS' and rnd.random() < 0.4:
                    fl.add('END_STREAM')
                if ty == 'PUSH_PROMISE':
                    f['promised'] = rnd.choice([2, 4, 6, 0, 3, 2 ** 31 - 2])
                if rnd.random() < 0.2:
                    fl.add('PADDED')
                    f['pad_length'] = rnd.choice([0, 1, 3])
                if ty == 'HEADERS' and rnd.random() < 0.2:
                    fl.add('PRIORITY')
                    f.update(depends_on=rnd.choice([0, sid or 1, 3]), weight_byte=rnd.randrange(256), exclusive=rnd.random() < 0.5)
            else:
                f = {'type': 'CONTINUATION', 'sid': (sid or 1) if rnd.random() < 0.9 else 9, 'flags': fl, 'block': pc}
            out.append(S(f))
    elif k < 0.42:
        f = {'type': 'DATA', 'sid': sid or 1, 'flags': {'END_STREAM'} if rnd.random() < 0.3 else set(), 'data': b'x' * rnd.choice([0, 1, 5, 100, 20000, 70000])}
        if rnd.random() < 0.4:
            f['flags'].add('PADDED')
            f['pad_length'] = rnd.choice([0, 1, 200])
        out.append(S(f))
    elif k < 0.52:
        out.append(S({'type': 'SETTINGS', 'sid': 0, 'flags': {'ACK'} if rnd.random() < 0.4 else set(),
                      'settings': [] if rnd.random() < 0.3 else [(rnd.randrange(12), rnd.choice([0, 1, 2, 16383, 16384, 2 ** 24, 2 ** 31, 2 ** 32 - 1]))]}))
    elif k < 0.6:
        out.append(S({'type': 'WINDOW_UPDATE', 'sid': sid, 'increment': rnd.choice([1, 2 ** 31 - 1, 2 ** 30, 65535])}))
    elif k < 0.66:
        out.append(S({'type': 'RST_STREAM', 'sid': sid or 1, 'error_code': rnd.choice([0, 8, 2 ** 32 - 1])}))
    elif k < 0.72:
        out.append(S({'type': 'PRIORITY', 'sid': sid or 1, 'depends_on': rnd.choice([0, sid or 1, 5]), 'weight_byte': rnd.randrange(256), 'exclusive': False}))
    elif k < 0.76:
        out.append(S({'type': 'GOAWAY', 'sid': 0, 'last_stream_id': rnd.choice([0, 1, 2 ** 31 - 1]), 'error_code': rnd.choice([0, 1, 2 ** 32 - 1]), 'debug': b'd' * rnd.choice([0, 5])}))
    elif k < 0.82:
        out.append(S({'type': 'ALTSVC', 'sid': sid, 'origin': rnd.choice([b'', b'example.com', b'\xff']), 'field': rnd.choice([b'h2=":443"', b'', b'\xfe'])}))
    elif k < 0.88:
        out.append(S({'type': rnd.choice([11, 12, 0xFF]), 'sid': sid, 'flagbyte': rnd.randrange(256), 'body': b'b' * rnd.choice([0, 3])}))
    else:
        ln = rnd.choice([0, 1, 4, 5, 6, 8, 9])
        out.append(wire.header(ln, rnd.randrange(0, 11), rnd.randrange(256), rnd.choice([0, 1, 2, 3])) + bytes(rnd.randrange(256) for _ in range(ln)))
    return out


def traffic(rnd, client, p_deviant=0.12):
    """bytes the peer of a (client / server) connection could send: a plausible conversation (streams opened with valid
    header blocks, data within the window, trailers, resets, settings, pings) with a deviant frame now and then"""
    enc = hpack.Encoder()
    out = [S({'type': 'SETTINGS', 'sid': 0, 'flags': set(),
              'settings': [] if rnd.random() < 0.5 else [(rnd.choice([1, 3, 4, 5, 6]), rnd.choice([100, 16384, 65535, 2 ** 20]))]})]
    opened = []          # stream ids with headers sent, not ended
    nxt = 1 if not client else 2
    mine = [1, 3] if client else []      # streams the connection under test may have opened itself
    for _ in range(rnd.choice([2, 5, 10, 20])):
        if rnd.random() < p_deviant:
            out += deviant(rnd, enc, client, (opened or [1]) + mine)
            continue
        k = rnd.random()
        if k < 0.3:
            if client:
                sid = rnd.choice(mine)
                hs = [(n, v) for n, v, _ in rnd.choice(t2.RESP_POOL + [t2.INFO])]
            else:
                sid = nxt
                nxt += 2
                hs = [(n, v) for n, v, _ in rnd.choice(t2.REQ_POOL)]
            if rnd.random() < 0.25:
                w = rnd.choice(WEIRD_HEADERS)
                pos = rnd.randrange(len(hs) + 1)
                hs = hs[:pos] + list(w) + hs[pos:]
            b = enc.encode(hs, huffman=rnd.random() < 0.5)
            es = rnd.random() < 0.3
            n = rnd.choice([0, 0, 0, 1, 3])
            cuts = sorted(rnd.randrange(len(b) + 1) for _ in range(n))
            pieces = [b[a:c] for a, c in zip([0] + cuts, cuts + [len(b)])]
            for i, pc in enumerate(pieces):
                fl = {'END_HEADERS'} if i == len(pieces) - 1 else set()
                if i == 0:
                    if es:
                        fl.add('END_STREAM')
                    out.append(S({'type': 'HEADERS', 'sid': sid, 'flags': fl, 'block': pc}))
                else:
                    out.append(S({'type': 'CONTINUATION', 'sid': sid, 'flags': fl, 'block': pc}))
            if not es and sid not in opened:
                opened.append(sid)
        elif k < 0.5 and opened:
            sid = rnd.choice(opened)
            es = rnd.random() < 0.3
            f = {'type': 'DATA', 'sid': sid, 'flags': {'END_STREAM'} if es else set(), 'data': b'x' * rnd.choice([0, 1, 5, 100, 1000])}
            if rnd.random() < 0.2:
                f['flags'].add('PADDED')
                f['pad_length'] = rnd.choice([0, 1, 20])
            out.append(S(f))
            if es:
                opened.remove(sid)
        elif k < 0.58 and opened:
            sid = rnd.choice(opened)
            b = enc.encode([(b'x-trailer', b'1')] + (rnd.choice(WEIRD_HEADERS) if rnd.random() < 0.3 else []))
            out.append(S({'type': 'HEADERS', 'sid': sid, 'flags': {'END_HEADERS', 'END_STREAM'}, 'block': b}))
            opened.remove(sid)
        elif k < 0.64 and opened:
            sid = rnd.choice(opened)
            out.append(S({'type': 'RST_STREAM', 'sid': sid, 'error_code': 8}))
            opened.remove(sid)
        elif k < 0.72:
            out.append(S({'type': 'WINDOW_UPDATE', 'sid': rnd.choice([0] + opened + mine), 'increment': rnd.choice([1, 1000, 65535])}))
        elif k < 0.78:
            out.append(S({'type': 'PING', 'sid': 0, 'flags': {'ACK'} if rnd.random() < 0.3 else set(), 'opaque': b'12345678'}))
        elif k < 0.86:
            out.append(S({'type': 'SETTINGS', 'sid': 0, 'flags': set(), 'settings': [(rnd.choice([1, 3, 4, 5, 6, 8]), rnd.choice([0, 1, 100, 16384, 65535, 2 ** 20]))]}))
        elif k < 0.9 and client and mine:
            b = enc.encode([(n, v) for n, v, _ in rnd.choice(t2.REQ_POOL)])
            pid = nxt
            nxt += 2
            out.append(S({'type': 'PUSH_PROMISE', 'sid': rnd.choice(mine), 'promised': pid, 'flags': {'END_HEADERS'}, 'block': b}))
        elif k < 0.94:
            out.append(S({'type': 'PRIORITY', 'sid': rnd.choice([1, 3, 5, 9]), 'depends_on': 0, 'weight_byte': 15, 'exclusive': False}))
        else:
            out.append(S({'type': 'ALTSVC', 'sid': rnd.choice([0] + mine), 'origin': b'example.com', 'field': b'h2=":443"'}))
    return out


def one_case(seed):
    rnd = random.Random(seed)
    client = rnd.random() < 0.5
    cfg = dict(client=client, header_encoding=rnd.random() < 0.4, validate_in=rnd.random() < 0.8, normalize_in=rnd.random() < 0.8,
               validate_out=True, normalize_out=True)
    frames = traffic(rnd, client)
    data = b''.join(frames)
    mode = rnd.random()
    if mode < 0.3:
        data = bytearray(data)
        for _ in range(rnd.choice([1, 2, 4, 8])):
            if not data:
                break
            i = rnd.randrange(len(data))
            r = rnd.random()
            if r < 0.6:
                data[i] = rnd.randrange(256)
            elif r < 0.8:
                del data[i]
            else:
                data.insert(i, rnd.randrange(256))
        data = bytes(data)
    elif mode < 0.34:
        data = bytes(rnd.randrange(256) for _ in range(rnd.choice([1, 9, 40, 200])))
    if not client and rnd.random() < 0.95:
        data = wire.PREFACE + data
    n = rnd.choice([1, 1, 2, 3, 8])
    if len(data) > 1 and n > 1:
        cuts = sorted(rnd.sample(range(1, len(data)), min(len(data) - 1, n - 1)))
        chunks = [data[a:c] for a, c in zip([0] + cuts, cuts + [len(data)])]
    else:
        chunks = [data]
    pre = rnd.choice(['', 'req', 'req+end', 'req2', 'upgrade'])
    return cfg, pre, chunks


def run_case(cfg, pre, chunks):
    """-> None, or (index of the failing call, exception type name, message)"""
    import h2.connection
    import h2.config
    import h2.exceptions
    c = h2.connection.H2Connection(config=h2.config.H2Configuration(
        client_side=cfg['client'], header_encoding='utf-8' if cfg['header_encoding'] else None,
        validate_inbound_headers=cfg['validate_in'], normalize_inbound_headers=cfg['normalize_in']))
    if pre == 'upgrade':
        if cfg['client']:
            c.initiate_upgrade_connection()
        else:
            c.initiate_upgrade_connection('AAMAAABkAAQAAP__')
    else:
        c.initiate_connection()
    if cfg['client'] and pre.startswith('req'):
        H = [(':method', 'GET'), (':path', '/'), (':scheme', 'https'), (':authority', 'example.com')]
        c.send_headers(1, H, end_stream=pre == 'req+end')
        if pre == 'req2':
            c.send_headers(3, H[:0] + [(':method', 'HEAD')] + H[1:], end_stream=True)
    for i, ch in enumerate(chunks):
        try:
            c.receive_data(ch)
        except h2.exceptions.ProtocolError:
            pass
        except Exception as e:  # noqa
            return i, type(e).__name__, str(e)[:200]
    return None


def fuzz(seed, n):
    """-> (stats, first failure or None)"""
    stats = {'cases': 0, 'client': 0, 'header_encoding': 0, 'novalidate': 0, 'chunked': 0, 'bytes_total': 0}
    fails = {}
    for i in range(n):
        cfg, pre, chunks = one_case(seed * 1000003 + i)
        stats['cases'] += 1
        stats['client'] += cfg['client']
        stats['header_encoding'] += cfg['header_encoding']
        stats['novalidate'] += not cfg['validate_in']
        stats['chunked'] += len(chunks) > 1
        stats['bytes_total'] += sum(len(c) for c in chunks)
        r = run_case(cfg, pre, chunks)
        if r is not None:
            key = r[1] + ': ' + r[2][:60]
            if key not in fails:
                fails[key] = {'cfg': cfg, 'pre': pre, 'chunks': [list(c) for c in chunks], 'call': r[0], 'exception': r[1], 'message': r[2], 'case_seed': seed * 1000003 + i}
    return stats, fails


def shrink(f):
    """greedy: fewer chunks, then shorter data, keeping the same exception type"""
    cfg, pre = f['cfg'], f['pre']
    data = b''.join(bytes(c) for c in f['chunks'])
    def fails(chunks):
        r = run_case(cfg, pre, chunks)
        return r is not None and r[1] == f['exception']
    chunks = [bytes(c) for c in f['chunks']]
    if fails([data]):
        chunks = [data]
        step = max(len(data) // 2, 1)
        while step >= 1 and len(data) > 1:
            i = 0
            changed = False
            while i < len(data):
                cand = data[:i] + data[i + step:]
                if cand and fails([cand]):
                    data = cand
                    changed = True
                else:
                    i += step
            if not changed:
                step //= 2
        chunks = [data]
    g = dict(f)
    g['chunks'] = [list(c) for c in chunks]
    r = run_case(cfg, pre, chunks)
    g['call'], g['exception'], g['message'] = r
    return g
