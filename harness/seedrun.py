"""Run light programs on the real implementation in THIS interpreter (whose PYTHONHASHSEED the parent chose) and print,
per program, the hashes of all observation parts.  stdin: JSON list of light programs; stdout: JSON list of hash lists."""
import json
import sys

sys.path.insert(0, sys.argv[1])     # /repo/src
sys.path.insert(0, sys.argv[2])     # /verif


def main():
    from harness import t2check
    progs = json.load(sys.stdin)
    out = []
    for d in progs:
        cfg, ops = t2check.unlight(d)
        p = t2check.rerun(cfg, ops)
        out.append(p['hashes'])
    json.dump(out, sys.stdout)


main()
