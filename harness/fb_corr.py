"""Correspondence of h2.frame_buffer.FrameBuffer (with the real hyperframe parsers) against Model/FrameBuffer.v
instantiated with Model/Wire.v: the same byte streams, in the same chunkings, give the same frames and errors."""
import random
import re

from harness import common, wire

DEFINED = {0: 0x9, 1: 0x2D, 2: 0, 3: 0, 4: 0x1, 5: 0xC, 6: 0x1, 7: 0, 8: 0, 9: 0x4, 10: 0}


def frame_obs(f):
    """(type, flag byte restricted to defined flags, stream id, body_len, len of data / fragment)"""
    name = type(f).__name__
    if name == 'ExtensionFrame':
        return [f.type, f.flag_byte, f.stream_id, 0, f.body_len]
    t = f.type
    fl = 0
    for n in f.flags:
        fl |= wire.FLAG_BITS[wire.TYPES[t]][n]
    data = getattr(f, 'data', None)
    ln = len(data) if data is not None and t in (0, 1, 5, 9) else f.body_len
    # body_len matters for DATA only (flow_controlled_length); hyperframe computes it differently per frame type
    return [t, fl, f.stream_id, f.body_len if t == 0 else 0, ln]


def impl_feed(server, maxf, chunks):
    from h2.frame_buffer import FrameBuffer
    import h2.exceptions as X
    from hyperframe.exceptions import InvalidPaddingError
    fb = FrameBuffer(server=server)
    fb.max_frame_size = maxf
    out = []
    for c in chunks:
        frames = []
        err = 0
        try:
            fb.add_data(bytes(c))
        except X.ProtocolError:
            out.append(([], 9))
            break
        try:
            for f in fb:
                frames.append(frame_obs(f))
        except X.FrameTooLargeError:
            err = 2
        except X.FrameDataMissingError:
            err = 3
        except X.ProtocolError:
            err = 1
        except InvalidPaddingError:
            err = 4
        except Exception as e:  # noqa: anything else is a non-protocol exception escaping the buffer
            err = 50
            frames.append([-1, 0, 0, 0, len(type(e).__name__)])
        out.append((frames, err))
    return out


def mask_model(obs):
    out = []
    for frames, err in obs:
        fs = []
        for t, fl, sid, ln, dl in frames:
            if t in DEFINED:
                fl &= DEFINED[t]
            fs.append([t, fl, sid, ln if t == 0 else 0, dl])
        out.append((fs, err))
    return out


# ---- generators -------------------------------------------------------------------------------------
def gen_stream(rnd):
    """-> bytes of a frame sequence, mostly valid, with header blocks around the CONTINUATION limit."""
    S = wire.serialize
    out = b''
    n = rnd.choice([1, 2, 3, 5, 8])
    for _ in range(n):
        k = rnd.random()
        sid = rnd.choice([0, 1, 1, 3, 5, 2])
        if k < 0.3:
            nfr = rnd.choice([0, 1, 2, 3, 62, 63, 64, 65, 66]) if rnd.random() < 0.4 else rnd.choice([0, 1, 2])
            blk = bytes(rnd.randrange(256) for _ in range(rnd.choice([0, 1, 5, 20])))
            fl = set()
            if nfr == 0:
                fl.add('END_HEADERS')
            if rnd.random() < 0.3:
                fl.add('END_STREAM')
            f = {'type': rnd.choice(['HEADERS', 'HEADERS', 'PUSH_PROMISE']), 'sid': sid or 1, 'flags': fl, 'block': blk}
            if f['type'] == 'PUSH_PROMISE':
                f['flags'].discard('END_STREAM')
                f['promised'] = rnd.choice([2, 4, 3, 0])
            if rnd.random() < 0.2:
                f['flags'].add('PADDED')
                f['pad_length'] = rnd.choice([0, 1, 3])
            if f['type'] == 'HEADERS' and rnd.random() < 0.2:
                f['flags'].add('PRIORITY')
                f.update(depends_on=rnd.choice([0, 3]), weight_byte=15, exclusive=False)
            out += S(f)
            for j in range(nfr):
                last = j == nfr - 1
                csid = (sid or 1) if rnd.random() < 0.97 else 7
                cfl = {'END_HEADERS'} if (last and rnd.random() < 0.9) else set()
                out += S({'type': 'CONTINUATION', 'sid': csid, 'flags': cfl, 'block': bytes(rnd.randrange(256) for _ in range(rnd.choice([0, 0, 1, 4])))})
        elif k < 0.45:
            f = {'type': 'DATA', 'sid': sid or 1, 'flags': set(), 'data': bytes(rnd.randrange(256) for _ in range(rnd.choice([0, 1, 10, 40])))}
            if rnd.random() < 0.3:
                f['flags'].add('PADDED')
                f['pad_length'] = rnd.choice([0, 1, 5])
            out += S(f)
        elif k < 0.55:
            out += S({'type': 'SETTINGS', 'sid': 0, 'flags': {'ACK'} if rnd.random() < 0.3 else set(),
                      'settings': [] if rnd.random() < 0.4 else [(rnd.randrange(10), rnd.randrange(70000))]})
        elif k < 0.62:
            out += S({'type': 'PING', 'sid': 0, 'flags': set(), 'opaque': b'12345678'})
        elif k < 0.7:
            out += S({'type': 'WINDOW_UPDATE', 'sid': sid, 'increment': rnd.choice([1, 100, 2**31 - 1])})
        elif k < 0.76:
            out += S({'type': 'RST_STREAM', 'sid': sid or 1, 'error_code': rnd.randrange(20)})
        elif k < 0.82:
            out += S({'type': 'PRIORITY', 'sid': sid or 1, 'depends_on': 0, 'weight_byte': 3, 'exclusive': False})
        elif k < 0.86:
            out += S({'type': 'GOAWAY', 'sid': 0, 'last_stream_id': 1, 'error_code': 0, 'debug': b'xy'})
        elif k < 0.9:
            out += S({'type': 'ALTSVC', 'sid': sid, 'origin': b'o' if rnd.random() < 0.5 else b'', 'field': b'h2'})
        elif k < 0.94:
            out += S({'type': rnd.choice([11, 0xFA]), 'sid': sid, 'flagbyte': rnd.randrange(256), 'body': b'abc'})
        else:
            # raw frame header with arbitrary type / length / flags and a short body
            ln = rnd.choice([0, 1, 3, 4, 5, 6, 7, 8, 9, 12])
            out += wire.header(ln, rnd.randrange(0, 12), rnd.randrange(256), rnd.choice([0, 1, 2, 2**31 - 1])) + bytes(rnd.randrange(256) for _ in range(ln))
    return out


def mutate(rnd, b):
    b = bytearray(b)
    for _ in range(rnd.choice([1, 1, 2, 4])):
        if not b:
            break
        k = rnd.random()
        i = rnd.randrange(len(b))
        if k < 0.6:
            b[i] = rnd.randrange(256)
        elif k < 0.8:
            del b[i]
        else:
            b.insert(i, rnd.randrange(256))
    return bytes(b)


def chunkings(rnd, b, exhaustive_below=0):
    yield [b]
    if len(b) <= 1:
        return
    yield [b[i:i + 1] for i in range(len(b))]
    for _ in range(3):
        cuts = sorted(rnd.sample(range(1, len(b)), min(len(b) - 1, rnd.choice([1, 2, 3, 6]))))
        yield [b[a:c] for a, c in zip([0] + cuts, cuts + [len(b)])]
    yield [b[:9], b[9:]] if len(b) > 9 else [b]


def coq_bytes(b):
    return '[' + ';'.join(str(x) for x in b) + ']'


def model_feed(cases, tag):
    """cases: list of (server, maxf, chunks) -> list of obs"""
    jobs = []
    for sh in range(0, len(cases), 150):
        lines = ['From H2 Require Import Base.Prelude Gen.Consts Model.Types Model.FrameBuffer Model.Wire.']
        items = []
        for server, maxf, chunks in cases[sh:sh + 150]:
            items.append('feed_obs %d %s [] [] [%s]' % (maxf, 'PREAMBLE' if server else '[]', ';'.join(coq_bytes(c) for c in chunks)))
        lines.append('Eval vm_compute in [%s].' % ';\n'.join(items))
        jobs.append(('%s_fb_%d' % (tag, sh), '\n'.join(lines) + '\n'))
    res = common.coq_eval_many(jobs)
    out = []
    import ast
    for name, _ in jobs:
        s = res[name]
        s = s[s.index('= [') + 2:]
        s = s[:s.rindex(']') + 1]
        s = re.sub(r'%Z', '', s).replace(';', ',')
        val = ast.literal_eval(''.join(s.split()))
        for case in val:
            out.append([(list(map(list, fr)), e) for fr, e in case])
    return out


def gen_cases(seed, n):
    rnd = random.Random(seed)
    cases = []
    for i in range(n):
        b = gen_stream(rnd)
        if rnd.random() < 0.35:
            b = mutate(rnd, b)
        server = rnd.random() < 0.4
        if server:
            pre = wire.PREFACE
            if rnd.random() < 0.1:
                pre = mutate(rnd, pre)
            b = pre + b
        maxf = rnd.choice([16384, 16384, 10, 30, 2**24 - 1])
        for ch in chunkings(rnd, b):
            cases.append((server, maxf, ch))
    return cases


def run(seed, n):
    """-> (cases, list of disagreements, chunking-dependence findings on the implementation)"""
    cases = gen_cases(seed, n)
    model = model_feed(cases, 'C21')
    dis = []
    for (server, maxf, ch), mo in zip(cases, model):
        io = impl_feed(server, maxf, ch)
        mo = mask_model(mo)
        io2 = [([list(f) for f in fr], e) for fr, e in io]
        if io2 != mo[:len(io2)] or len(mo) < len(io2):
            dis.append({'server': server, 'max_frame_size': maxf, 'chunks': [list(c) for c in ch], 'impl': io2, 'model': mo})
    return cases, dis


def chunk_oracle(server, maxf, b, chs):
    """The property on the implementation: every chunking gives the same frames and the same first error."""
    def flat(obs):
        frames = []
        err = 0
        for fr, e in obs:
            frames += fr
            if e:
                err = e
                break
        return frames, err
    ref = flat(impl_feed(server, maxf, [b]))
    bad = []
    for ch in chs:
        got = flat(impl_feed(server, maxf, ch))
        if got != ref:
            bad.append({'chunks': [list(c) for c in ch], 'whole': ref, 'chunked': got})
    return bad


def distribution(cases):
    """What the byte-stream cases looked like (for the evidence file)."""
    d = {'cases': len(cases), 'server': 0, 'chunks_1': 0, 'chunks_2_9': 0, 'chunks_10_plus': 0, 'bytes_max': 0, 'limits': {}}
    for server, maxf, ch in cases:
        d['server'] += 1 if server else 0
        n = len(ch)
        d['chunks_1' if n == 1 else 'chunks_2_9' if n < 10 else 'chunks_10_plus'] += 1
        d['bytes_max'] = max(d['bytes_max'], sum(len(c) for c in ch))
        d['limits'][str(maxf)] = d['limits'].get(str(maxf), 0) + 1
    return d


# ---- data_to_send -----------------------------------------------------------------------------------
def _conn_with_output(n_pings):
    import h2.connection
    c = h2.connection.H2Connection()
    c.initiate_connection()
    for i in range(n_pings):
        c.ping(bytes([i % 256]) * 8)
    return c


def data_to_send_one(n_pings, amounts):
    """-> None if the pieces partition the buffer, else a description"""
    whole = _conn_with_output(n_pings).data_to_send()
    c = _conn_with_output(n_pings)
    pieces = [c.data_to_send(a) for a in amounts]
    last = c.data_to_send()
    if b''.join(pieces) + last != whole:
        return {'partition_broken': True, 'buf_len': n_pings, 'amounts': amounts, 'whole_len': len(whole), 'piece_lens': [len(x) for x in pieces] + [len(last)]}
    return None


def data_to_send_corr(seed, n):
    rnd = random.Random(seed + 77)
    cases = []
    bad = []
    for i in range(n):
        n_pings = rnd.choice([0, 0, 1, 3, 10])
        amounts = [rnd.choice([None, 0, 1, 5, 9, 24, 100, 10 ** 6, -1, -3, -1000]) for _ in range(rnd.choice([0, 1, 2, 4, 8]))]
        cases.append((n_pings, amounts))
    lines = ['From H2 Require Import Base.Prelude Model.Types Model.FrameBuffer.',
             'Definition obs (a : list (option Z)) (n : nat) : list Z := let \'(xs, rest) := reads a (repeat 0 n) in map zlen xs ++ [zlen rest].']
    items = []
    impl = []
    for n_pings, amounts in cases:
        b = data_to_send_one(n_pings, amounts)
        if b:
            bad.append(b)
        whole = _conn_with_output(n_pings).data_to_send()
        c = _conn_with_output(n_pings)
        lens = [len(c.data_to_send(a)) for a in amounts]
        lens.append(len(c.data_to_send()))
        impl.append(lens)
        items.append('obs [%s] %d%%nat' % (';'.join('None' if a is None else 'Some (%d)' % a for a in amounts), len(whole)))
    lines.append('Eval vm_compute in [%s].' % ';\n'.join(items))
    res = common.coq_eval_many([('C21_dts', '\n'.join(lines) + '\n')])['C21_dts']
    import ast
    s = res[res.index('= [') + 2:]
    s = s[:s.rindex(']') + 1]
    model = ast.literal_eval(''.join(re.sub(r'%Z', '', s).replace(';', ',').split()))
    for (n_pings, amounts), a, b in zip(cases, impl, model):
        if list(a) != list(b):
            bad.append({'buf_len': n_pings, 'amounts': amounts, 'impl_piece_lens': a, 'model_piece_lens': b})
    return {'data_to_send_cases': len(cases)}, bad


# ---- a stage usable by every property whose mechanism includes the frame buffer (C17, C21, C27) -------
def impl_header_buffer_len(server, maxf, chunks):
    """largest len(_headers_buffer) seen after calls that did not raise; type names of non-protocol exceptions"""
    from h2.frame_buffer import FrameBuffer
    import h2.exceptions as X
    from hyperframe.exceptions import InvalidPaddingError
    fb = FrameBuffer(server=server)
    fb.max_frame_size = maxf
    worst = 0
    foreign = []
    for c in chunks:
        try:
            fb.add_data(bytes(c))
            for _ in fb:
                pass
            worst = max(worst, len(fb._headers_buffer))
        except (X.ProtocolError, InvalidPaddingError):
            break
        except Exception as e:  # noqa
            foreign.append(type(e).__name__)
            break
    return worst, foreign


def flood_cases():
    """directed: a header-block opener followed by n CONTINUATION frames (empty or not), with and without END_HEADERS at the end"""
    S = wire.serialize
    out = []
    for n in (63, 64, 65, 66, 200, 1200):
        for empty in (True, False):
            for end in (True, False):
                b = S({'type': 'HEADERS', 'sid': 1, 'flags': set(), 'block': b'\x82'})
                for j in range(n):
                    fl = {'END_HEADERS'} if (end and j == n - 1) else set()
                    b += S({'type': 'CONTINUATION', 'sid': 1, 'flags': fl, 'block': b'' if empty else b'\x84'})
                b += S({'type': 'PING', 'sid': 0, 'flags': set(), 'opaque': b'12345678'})
                out.append((False, 16384, [b]))
                out.append((False, 16384, [b[:100], b[100:]]))
    return out


def stage(run, n, what):
    """what: 'chunk' (C21), 'bounded' (C27), 'exceptions' (C17).  Model/FrameBuffer.v+Wire.v against the real FrameBuffer,
    then the property-specific oracle on the real FrameBuffer.  Adds breaks / violations to run; -> coverage dict."""
    cases = gen_cases(run.seed, n) + flood_cases()
    model = model_feed(cases, run.pid)
    dis = []
    for (server, maxf, ch), mo in zip(cases, model):
        io = impl_feed(server, maxf, ch)
        mo = mask_model(mo)
        io2 = [([list(f) for f in fr], e) for fr, e in io]
        if io2 != mo[:len(io2)] or len(mo) < len(io2):
            dis.append({'server': server, 'max_frame_size': maxf, 'chunks': [list(c) for c in ch], 'impl': io2, 'model': mo})
    cov = {'framebuffer_cases': len(cases), 'framebuffer_disagreements': len(dis), 'framebuffer_distribution': distribution(cases)}
    rnd = random.Random(run.seed)
    worst = None
    n_or = 0
    streams = [(s, m, b''.join(bytes(c) for c in ch)) for s, m, ch in flood_cases()[::2]]
    for i in range(n * 3):
        b = gen_stream(rnd)
        if rnd.random() < 0.3:
            b = mutate(rnd, b)
        server = rnd.random() < 0.3
        if server:
            b = wire.PREFACE + b
        streams.append((server, rnd.choice([16384, 30, 2 ** 24 - 1]), b))
    streams += [(d['server'], d['max_frame_size'], bytes(sum(d['chunks'], []))) for d in dis[:20]]
    for server, maxf, b in streams:
        chs = list(chunkings(rnd, b))
        n_or += len(chs)
        if what == 'chunk':
            bad = chunk_oracle(server, maxf, b, chs)
            if bad and worst is None:
                worst = {'rule': 'FrameBuffer yields different frames / errors for the same bytes in a different chunking',
                         'framebuffer_case': {'server': server, 'max_frame_size': maxf, 'bytes': list(b), 'bad': bad[0]}}
        else:
            for ch in chs:
                w, foreign = impl_header_buffer_len(server, maxf, ch)
                if what == 'bounded' and w > 64 and worst is None:
                    worst = {'rule': 'the header-block buffer holds more than CONTINUATION_BACKLOG frames',
                             'framebuffer_case': {'server': server, 'max_frame_size': maxf, 'chunks': [list(c) for c in ch], 'held': w}}
                if what in ('exceptions', 'bounded') and foreign and worst is None:
                    worst = {'rule': 'the frame buffer let a non-protocol exception escape: ' + foreign[0],
                             'framebuffer_case': {'server': server, 'max_frame_size': maxf, 'chunks': [list(c) for c in ch], 'exception': foreign[0]}}
    if what == 'bounded':
        # header blocks longer than the CONTINUATION limit are refused: opener + n CONTINUATIONs, END_HEADERS on the last
        S = wire.serialize
        for opener in ('HEADERS', 'PUSH_PROMISE'):
            for n in (62, 63, 64, 65, 100):
                f0 = {'type': opener, 'sid': 1, 'flags': set(), 'block': b'\x82'}
                if opener == 'PUSH_PROMISE':
                    f0['promised'] = 2
                b = S(f0)
                for j in range(n):
                    b += S({'type': 'CONTINUATION', 'sid': 1, 'flags': {'END_HEADERS'} if j == n - 1 else set(), 'block': b''})
                for ch in ([b], [b[i:i + 9] for i in range(0, len(b), 9)]):
                    n_or += 1
                    obs = impl_feed(False, 16384, ch)
                    got = any(fr for fr, e in obs)
                    if (got and n + 1 > 64) and worst is None:
                        worst = {'rule': 'a header block of %d frames (limit CONTINUATION_BACKLOG = 64) was accepted' % (n + 1),
                                 'framebuffer_case': {'server': False, 'max_frame_size': 16384, 'chunks': [list(c) for c in ch], 'block_frames': n + 1}}
                    if (not got and n + 1 <= 64) and worst is None:
                        run.breaks.append({'kind': 'correspondence', 'what': 'a header block of %d frames was refused' % (n + 1)})
    cov['framebuffer_oracle_cases'] = n_or
    if worst is not None:
        worst.update(kind='oracle', how_to_replay='./check %s --replay <this file>' % run.pid)
        run.violation(worst)
    elif dis:
        d = dis[0]
        run.breaks.append({'kind': 'correspondence', 'what': 'Model/FrameBuffer.v + Model/Wire.v (feed_obs) against h2.frame_buffer.FrameBuffer',
                           'case': {k: d[k] for k in ('server', 'max_frame_size')}, 'chunk_lengths': [len(c) for c in d['chunks']][:50],
                           'bytes': sum(d['chunks'], [])[:4000], 'impl': str(d['impl'][-3:])[:600], 'model': str(d['model'][-3:])[:600], 'n_disagreements': len(dis)})
    return cov


def replay_case(what, c):
    """-> True if the recorded frame-buffer case still fails"""
    if what == 'chunk':
        return bool(chunk_oracle(c['server'], c['max_frame_size'], bytes(c['bytes']), [[bytes(x) for x in c['bad']['chunks']]]))
    chunks = [bytes(x) for x in c['chunks']]
    if c.get('block_frames', 0) > 64:
        return any(fr for fr, e in impl_feed(c['server'], c['max_frame_size'], chunks))
    w, foreign = impl_header_buffer_len(c['server'], c['max_frame_size'], chunks)
    return w > 64 or bool(foreign)
