#!/usr/bin/env python3
"""Regenerates /verif/MANIFEST.json from the table below (kept valid at all times)."""
import json, os
V = os.path.dirname(os.path.dirname(os.path.abspath(__file__)))
ALL = ['C%02d' % i for i in range(1, 30)]
NOTE_COMMON = ('Trusted: Coq 8.16.1 kernel + vm_compute (no native_compute), no axioms (Print Assumptions recorded per theorem in the evidence), '
               'the translator (/verif/translator) that regenerates coq/Gen/*.v from /repo on every run, and the differential '
               'correspondence harness (sampled). hpack/hyperframe are external oracles, CPython semantics of int/bytes/dict are modelled.')
CHECKS = {
 'C12': dict(
    level='proof',
    text='Theorems in Coq for ALL setting identifiers and ALL values >= 0: the function translated from settings._validate_setting on this run accepts exactly the RFC 7540 6.5.2 / RFC 8441 ranges and rejects everything else with the mandated code; the INITIAL_WINDOW_SIZE delta arithmetic (guard_increment_window) is exact and overflows to FLOW_CONTROL_ERROR. The translated kernels are re-proved equal to the hand model on every run (GenEq), and the connection-level reactions (receive_data / update_settings / initial values / IWS delta) are compared with the model on a boundary-dense grid.',
    design='7.C12', technique='Coq proof (lia) over AST-translated kernel + differential correspondence on boundary grid'),
}
CHECKS['C05'] = dict(
    level='proof',
    text='Theorems in Coq over ALL histories (any length, any interleaving) of the four operations hyper-h2 applies to a WindowManager (DATA received, bytes acknowledged, manual increment, local INITIAL_WINDOW_SIZE change), for all maxima: emitted increments never exceed bytes acknowledged and never lift the window above its maximum; no stall and the 2^31-1 ceiling are proved for the histories outside two refuted patterns (known findings F-C05-1, F-C05-2, each with a vm_compute witness replayed on the real code). The model is proved equal (GenEq) to the functions AST-translated from windows.py / stream.py on every run, and random + boundary histories are compared step by step with the real objects.',
    design='7.C05', technique='Coq invariant proofs by induction over operation histories of AST-translated kernels + differential correspondence')
CHECKS['C03'] = dict(
    level='proof',
    text='Theorems in Coq over the connection model (every finite program of API calls and received frames, unbounded): the connection send window never goes negative; a DATA frame is emitted only if its flow-controlled length (padding+1 included) fits the stream window, the connection window and MAX_FRAME_SIZE before the call; local_flow_control_window is the minimum; one byte more raises FlowControlError and leaves the whole state untouched; complete characterisation of which operations change the connection window (footprint lemmas for every handler). The two send_data comparisons are extracted from connection.py on every run; the model is compared step by step with the real H2Connection on result / output / flow-control state, and an independent wire-history window oracle runs on the implementation traces.',
    design='7.C03', technique='Coq invariant by induction over operation histories + extracted guards + differential correspondence')
CHECKS['C26'] = dict(
    level='proof',
    text='Closed-form theorems in Coq for the PING handler and ping(): on any connection state that is not CLOSED and for every payload, a PING without ACK appends exactly one PING ACK with the identical payload and yields exactly one PingReceived; a PING ACK appends nothing and yields one PingAckReceived; nothing else in the state changes; ping() emits exactly one frame for 8-byte payloads and raises ValueError with the state untouched otherwise (length guard extracted from the source). Ping-heavy programs with several PINGs per receive_data call are compared with the model and judged by an order/payload oracle.',
    design='7.C26', technique='Coq closed-form theorems over the connection model + generated table + differential correspondence')
CHECKS['C23'] = dict(
    level='proof',
    text='Theorems in Coq for all integers: _add_frame_priority accepts exactly weight in 1..256 and no self-dependency (guards extracted from the source); the PriorityUpdated a peer reports equals the request with defaults 16/0/False (encode/decode round trip through the weight byte); a received PRIORITY frame on ANY stream id leaves the WHOLE connection state equal (c = c) in every state before close and yields exactly one PriorityUpdated or a protocol error for self-dependency; servers are refused. Priority-heavy programs are compared with the model on every stream / flow-control probe.',
    design='7.C23', technique='Coq theorems (whole-state equality, lia over extracted guards) + differential correspondence')
CHECKS['C19'] = dict(
    level='proof',
    text='Theorems in Coq: the generated connection table admits only GOAWAY in CLOSED and GOAWAY closes from every state (by computation); CLOSED is absorbing under every operation, hence for every history of API calls and received frames (induction, unbounded); every emitting / stream-opening API call (10 calls) raises and appends nothing on a closed connection; received frames handled through the state machine raise without appending; a received GOAWAY empties the pending output. Two refuted call patterns (acknowledge_received_data, naked CONTINUATION for a reset stream) are known findings with vm_compute witnesses replayed on the real code.',
    design='7.C19', technique='Coq invariant by induction over histories + compositional per-handler provers + table computation + differential correspondence')
CHECKS['C04'] = dict(
    level='proof',
    text='Theorems in Coq over the connection model and the AST-translated window kernels: remote_flow_control_window is the minimum of the two advertised windows; increment_flow_control_window changes the connection window by exactly the increment of the WINDOW_UPDATE it emits, and any raising window-changing call (range, state machine, overflow, unknown stream) leaves every inbound window and the output unchanged; DATA overrunning the advertised connection window is FLOW_CONTROL_ERROR (code 3), DATA that fits passes and consumes exactly its flow-controlled length; the stream-level check is exact. Flow-heavy programs plus directed programs with streams in every state and acknowledged INITIAL_WINDOW_SIZE changes are compared with the model on all flow-control state; an oracle recomputes the advertised connection window from the wire history.',
    design='7.C04', technique='Coq theorems over connection model + translated kernels + differential correspondence with directed state-zoo programs')
CHECKS['C09'] = dict(
    level='proof',
    text='Theorems in Coq: get_next_available_stream_id (the function translated from the source) returns, for every watermark, the least unused id of the endpoint parity, or NoAvailableStreamIDError exactly beyond 2^31-1 (lia, all integers); a stream is opened only with an id above the watermark of its direction and of the required parity, a refused id changes nothing (c = c); classification of a too-low peer id into stream error / STREAM_CLOSED / PROTOCOL_ERROR; both watermarks are monotone over EVERY history (induction over all operations, unbounded); PRIORITY frames leave watermarks and stream tables untouched. The 2^31-1 upper bound for user-chosen ids is refuted (known finding F-C09-1).',
    design='7.C09', technique='Coq: kernel theorem by lia + invariant by induction over histories (compositional prover) + differential correspondence')
CHECKS['C10'] = dict(
    level='proof',
    text='Theorems in Coq over the connection model: exactly the open and the two half-closed states count (generated STREAM_OPEN table, by computation; reserved streams do not); open_outbound_streams / open_inbound_streams return the RFC count and the lazy clean-up of closed streams changes no count; a locally opened stream succeeds only if count + 1 <= the peer limit and otherwise raises TooManyStreamsError with nothing emitted; a peer HEADERS beyond the acknowledged local limit is rejected and one within it passes the check (both comparisons extracted from connection.py). The full outbound bound is refuted for reserved-stream activation (known finding F-C10-1, vm_compute witness). Churn programs with limit changes on both sides are compared with the model; an oracle recounts streams independently.',
    design='7.C10', technique='Coq theorems over the connection model with extracted guards + table computation + differential correspondence')
CHECKS['C11'] = dict(
    level='proof',
    text='Theorems in Coq over Settings (per-key queues) with the translated validator: __setitem__ queues a valid value behind the value in force and an invalid one changes nothing; from a settled object, ONE SETTINGS frame (any number of distinct known or unknown identifiers) followed by ONE acknowledgement gives every identifier of the frame exactly its value, leaves every other identifier untouched and is settled again (induction over the frame; this is the received-SETTINGS path and the local path with one frame in flight); a raising update_settings appends nothing. The general one-frame-per-ACK matching is refuted with three vm_compute witnesses (known findings F-C11-1..3). Settings-heavy programs are compared with the model on both Settings objects (every queued value), and a per-frame reference oracle judges the implementation traces.',
    design='7.C11', technique='Coq theorems by induction over SETTINGS frames + refutation witnesses + differential correspondence')
CHECKS['C18'] = dict(
    level='proof',
    text='Theorems in Coq: whenever receive_data raises an h2 exception, the final state is a state reached inside the call, closed, with exactly one frame appended: GOAWAY(last_stream_id = highest inbound stream id, code = the exception code) (induction over the receive loop, any number of frames, leftovers of earlier failing batches included); closed form of _terminate_connection; the code of every exception class read from the class attributes; oversized frame -> FrameTooLargeError (extracted guard), oversized header list -> ENHANCE_YOUR_CALM. COMPRESSION_ERROR for undecodable blocks is a known finding (tests pin PROTOCOL_ERROR). Violation-heavy traffic is compared with the model and judged by an independent error-category classifier.',
    design='7.C18', technique='Coq induction over the receive loop + generated exception table + differential correspondence with classifier oracle')
CHECKS['C29'] = dict(
    level='proof',
    text='Theorems in Coq over the connection model: a stream id that is not in the stream table makes the lookup raise StreamClosedError when it is at or below the watermark of its direction and NoSuchStreamError when above (comparison extracted from _get_stream_by_id); end_stream, reset_stream, increment_flow_control_window and send_data on such an id report exactly that (closed forms: no KeyError, only the state machine state changes); ping and reset_stream append nothing when they raise. Three call patterns that leak non-h2 exceptions or append bytes before raising are refuted with vm_compute witnesses (known findings F-C29-1..4). Every public call with arbitrary ids in every state (directed programs over streams in every state) is compared with the model; partial: interpreter-level exceptions outside the modelled primitives are not covered.',
    design='7.C29', technique='Coq closed-form theorems + refutation witnesses + differential correspondence over directed state-zoo programs')
CHECKS['C27'] = dict(
    level='proof',
    text='Theorems in Coq: the memory of closed streams never exceeds MAX_CLOSED_STREAMS over EVERY history (induction over all operations with the eviction test extracted from SizeLimitDict, unbounded length); PRIORITY on any id leaves the whole state unchanged; RST_STREAM / WINDOW_UPDATE on unknown ids and unknown frame types allocate no stream state; a decoded header list above the acknowledged MAX_HEADER_LIST_SIZE is refused with ENHANCE_YOUR_CALM (11). Long peer-driven programs are compared with the model on the stream tables; the CONTINUATION limit is covered by the frame-buffer model of C21.',
    design='7.C27', technique='Coq invariant by induction over histories + extracted guard + differential correspondence')
CHECKS['C21'] = dict(
    level='proof',
    text='Theorems in Coq, for EVERY byte string and EVERY way of cutting it: (1) the loop of receive_data over the frame buffer (9-byte header, wait for the body, size check against the limit read from the receiver state before every frame, body parse, HEADERS/PUSH_PROMISE + CONTINUATION folding) run chunk by chunk equals one run on the concatenation - same receiver state (hence same events and emitted bytes), same exception at the same frame, same leftover bytes and partial header block - for arbitrary header/body parsers and an arbitrary stateful receiver (Section variables, no hypotheses); (2) the client preface checked piecewise equals the check on the concatenation; (3) on the connection model, receive_data per group of frames equals one call on all frames; (4) any sequence of data_to_send(amount) calls (None, 0, positive, oversized, negative) partitions the buffer. The frame-buffer model (instantiated with hyperframe 6.1 parse rules) is compared with the real FrameBuffer on chunked valid / mutated byte streams including 62..66 CONTINUATION frames; every generated connection program is replayed on the real H2Connection with each receive_data call cut one byte at a time / every 9 or 10 bytes with empty calls / randomly and all observations must equal the uncut run.',
    design='7.C21', technique='Coq theorem by induction over chunk lists and fuel (parsers and receiver abstract) + differential correspondence + metamorphic replay on the implementation')
CHECKS['C17'] = dict(
    level='proof',
    text='Theorems in Coq closing, for ALL inputs, the places where the receive path could raise something other than a ProtocolError: the inbound header pipeline (cookie joining, every validation stage, text decoding) never raises IndexError for any header list (empty names included) and its UnicodeDecodeError is turned into ProtocolError; every HPACK decoder outcome becomes ProtocolError / DenialOfServiceError or a header list; frames refused by the frame buffer raise ProtocolError / FrameDataMissingError / FrameTooLargeError and InvalidPaddingError is translated by receive_data; every h2 exception class raised on the receive path is a ProtocolError subclass; PRIORITY, GOAWAY and unknown-type frames never raise anything else in any state. The single end-to-end statement (no Python exception from api_receive in every reachable state) is NOT proved as one theorem (it needs the frame-size and window invariants composed over every handler): that composition is covered by the model/implementation correspondence on malformed-frame-heavy programs, a byte-level fuzzer of the real receive_data (tens of thousands of conversations with deviant frames, arbitrary HPACK bytes, mutation, random chunking, all header_encoding/validation configurations) and the frame-buffer model compared with the real FrameBuffer on CONTINUATION floods.',
    design='7.C17', technique='Coq theorems per exception source (all inputs) + differential correspondence + byte-level fuzzing as failing-input search')
CHECKS['C06'] = dict(
    level='proof',
    text='Theorem in Coq over the COMPLETE state space of the stream object (7 RFC states x role x 4 message flags x closed_by) and all 19 inputs: the reaction of the transition table regenerated from stream._transitions plus the side-effect functions (accepted + new state / refused / stream error code / connection error code, told apart as _receive_frame does) equals the reaction of an RFC 7540 section 5.1 reference machine written from the RFC text (Spec/Rfc51.v), except on an explicit, proved-tight list of pairs (documented leniencies, internal inputs, undocumented divergences = known findings F-C06-1..4); permitted actions are possible; accepted steps keep the stream object in lock-step with the RFC machine. Finite space decided by vm_compute and lifted to a universally quantified theorem. Tie to the code: table regenerated every run + exhaustive comparison of all 31 920 process_input configurations with the real H2StreamStateMachine + directed connection-level programs (every zoo state x every frame / action) and random programs compared with the connection model and judged by the RFC table.',
    design='7.C06', technique='Coq theorem over a finite complete state space (vm_compute, forallb lifted) against an independent RFC reference + exhaustive correspondence')
CHECKS['C07'] = dict(
    level='proof',
    text='Theorems in Coq: (1) the set of states a stream state machine can reach from a fresh one under ANY input sequence is computed inside Coq and proved closed under every input (an invariant over all histories, unbounded length); over that set: DataReceived only after final headers, a server-side stream never yields Response / Informational / Pushed events and a client-side one never RequestReceived, nothing is accepted after the peer ended the stream, informational only before the final response, one final header block then trailers once, StreamReset at most once and no stream event from a closed stream; (2) for every header list, flag and stream state, the event list H2Stream.receive_headers / receive_data returns has its stream_ended link pointing at the next element of the same list with the same stream id, trailers always carry it, informational responses never do. Receive-heavy programs are compared with the model and run through an independent per-stream grammar monitor on the real events (known finding F-C07-1: a client reports RequestReceived for HEADERS on a never-promised even stream).',
    design='7.C07', technique='Coq invariant via computed reachable-state closure (proved closed) + structural lemma on event lists + differential correspondence + runtime grammar monitor')
CHECKS['C08'] = dict(
    level='proof',
    text='Theorems in Coq over the reachable-state closure of the stream state machine (all histories): headers after trailers and informational responses after the final response are refused, the second header block is trailers, a stream opened as a client never sends a response / PUSH_PROMISE / ALTSVC, RequestSent only from idle, nothing but RST / WINDOW_UPDATE after the local end; the connection role gate (client cannot SEND_PUSH_PROMISE / SEND_ALTERNATIVE_SERVICE once open) from the regenerated table. Two clauses are refuted with witnesses (Properties/C08_refuted.v): DATA / END_STREAM before response headers is accepted on peer-opened streams (F-C08-2); an IDLE connection accepts SEND_ALTERNATIVE_SERVICE whatever its role (F-C08-3); plus F-C08-1 (server opens an even stream with send_headers). Send-heavy programs are compared with the model and judged by a per-stream monitor of accepted send operations.',
    design='7.C08', technique='Coq invariant via computed reachable-state closure + refutation witnesses + differential correspondence + runtime send-grammar monitor')
CHECKS['C16'] = dict(
    level='proof',
    text='Theorems in Coq about H2Stream._track_content_length (translated from stream.py on every run and proved equal to the model step): for EVERY content-length n and EVERY chunking of the body into DATA frames of any non-negative sizes, DATA is accepted exactly while the payload total stays within n, and a message ended by a DATA frame is accepted if and only if the total equals n; without content-length nothing is checked; padding is never counted (for every payload / flow-controlled length); a response to HEAD expects an empty body whatever its content-length. Three clauses are refuted with witnesses in the model and replayed on the implementation (known findings): END_STREAM on HEADERS with non-zero content-length accepted (F-C16-1), mismatch undetected when the message is ended by trailers (F-C16-2), 204/304 with content-length ended by empty DATA rejected (F-C16-3); F-C16-4: HEAD request with trailers forgets the method. Directed programs over method x status x content-length x chunking x padding x END_STREAM placement are compared with the model and judged by an independent oracle.',
    design='7.C16', technique='Coq theorems by induction over DATA chunk lists on a kernel translated from the source + refutation witnesses + differential correspondence + independent runtime oracle')
CHECKS['C13'] = dict(
    level='proof',
    text='Theorems in Coq, for EVERY header list, configuration and stream state: a send_headers / push_stream call that returns normally handed exactly one list to the HPACK encoder, that list is the one the emitted block carries, and it is the output of the normalisation + validation pipeline on the whole input, so encoder and peer contexts advance by the same list; a call that left the encoder untouched emitted nothing. The clause "a call that raises leaves the compression context as if it had never been made" is REFUTED with two witnesses (validation failing after four consumed fields; trailers without END_STREAM refused after encoding) = known finding F-C13-1, reproduced on the implementation by watching the real encoder table and decoding every emitted block with a peer-side decoder. Partial: hpack itself (table eviction, Huffman, size updates) is an external oracle, not modelled; its effect is observed through the peer-side decoder in the correspondence run.',
    design='7.C13', technique='Coq theorems on the call/encoder interface (all inputs) + refutation witnesses + differential correspondence on the encoder log and peer-side decoding')
NA_REASON = {}
def main():
    checks = []
    for pid in ALL:
        if pid not in CHECKS: continue
        c = CHECKS[pid]
        checks.append({
            'property_id': pid,
            'quick_cmd': './check %s --tier quick' % pid,
            'thorough_cmd': './check %s --tier thorough' % pid,
            'evidence_file': 'evidence/%s.json' % pid,
            'replay_cmd_template': './check %s --replay {path}' % pid,
            'engine': 'coq-model',
            'level_claimed': {'category': c['level'], 'text': c['text'], 'design_ref': c['design']},
            'level_note': c.get('note', NOTE_COMMON),
            'technique': c['technique'],
        })
    na = [{'property_id': p, 'reason': NA_REASON.get(p, 'not claimed yet: the check for this property is not built (plan in DESIGN.md section 7); the technique applies')}
          for p in ALL if p not in CHECKS]
    m = {
        'version': 1,
        'setup_cmd': './setup.sh',
        'hooks': {'guard': 'H2_VERIF', 'enable': 'no source hooks are needed: all observation is done from outside (public API, attribute reads, spy objects); H2_VERIF=1 is exported by ./check but read by nothing in /repo',
                  'baseline_off_cmd': './baseline.sh', 'source_commits': [], 'add_only': True},
        'engines': [{'name': 'coq-model', 'path': 'coq/', 'serves_properties': sorted(CHECKS),
                     'kind_free_text': 'Gallina model of hyper-h2 + theorems (Coq 8.16.1); Gen/*.v regenerated from /repo by translator/ on every run; correspondence by vm_compute on generated cases files against the real h2 objects'}],
        'checks': checks,
        'not_applicable': na,
        'notes': 'See DESIGN.md. known_findings.txt lists genuine defects (finding:/fixed:).',
    }
    json.dump(m, open(os.path.join(V, 'MANIFEST.json'), 'w'), indent=1)
    print('MANIFEST.json: %d checks, %d not claimed' % (len(checks), len(na)))
main()
