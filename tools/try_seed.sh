#!/bin/bash
# tools/try_seed.sh <seed-name> <worktree> <check ids...>
# Confirms a seeded defect (demo fails with it / passes without, suite unchanged), stores it under /verif/seeded/<name>,
# applies it to /repo, runs the given checks, and undoes it.
name=$1; wt=$2; shift 2
d=/verif/seeded/$name; mkdir -p $d
cp $wt/_seed/patch.diff $wt/_seed/demo.py $d/ 2>/dev/null; cp $wt/_seed/notes.md $d/ 2>/dev/null
cd $wt && git checkout -q -- src && git apply $d/patch.diff || { echo "patch does not apply"; exit 2; }
PYTHONPATH=$wt/src /venv/bin/python $d/demo.py > $d/demo_with.txt 2>&1; with=$?
suite=$(PYTHONPATH=$wt/src /venv/bin/python -m pytest -q -p no:cacheprovider 2>&1 | tail -1)
git checkout -q -- src
PYTHONPATH=$wt/src /venv/bin/python $d/demo.py > $d/demo_without.txt 2>&1; without=$?
echo "demo: with=$with without=$without ; suite with patch: $suite"
res=""
git -C /repo apply $d/patch.diff || { echo "patch does not apply to /repo"; exit 2; }
mkdir -p /verif/_build/evsave; for c in "$@"; do cp /verif/evidence/$c.json /verif/_build/evsave/ 2>/dev/null; done
for c in "$@"; do
  out=$(cd /verif && timeout 1500 ./check $c 2>&1 | grep -E "VIOLATION|^$c " | tr '\n' ' ')
  echo "  check $c: $out"
  res="$res $c:[$out]"
done
git -C /repo checkout -- .
for c in "$@"; do cp /verif/_build/evsave/$c.json /verif/evidence/ 2>/dev/null; done
echo "$res" > $d/check_results.txt
