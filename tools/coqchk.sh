#!/bin/bash
# tools/coqchk.sh : re-check every compiled Properties module (and everything it depends on) with Coq's independent checker
# and print the axioms they rely on.  About one minute.  Writes coqchk_summary.txt.
cd /verif/coq || exit 2
mods=$(ls Properties/*.v | sed 's#Properties/\(.*\)\.v#H2.Properties.\1#' | tr '\n' ' ')
timeout 3000 coqchk -o -silent -Q . H2 $mods > /verif/_build/coqchk.log 2>&1; rc=$?
{ echo "coqchk -o over: $mods"; echo "exit status: $rc"; sed -n '/CONTEXT SUMMARY/,$p' /verif/_build/coqchk.log; } > /verif/coqchk_summary.txt
cat /verif/coqchk_summary.txt
exit $rc
