#!/bin/bash
# tools/run_all.sh [tier] [parallelism] : every check of MANIFEST.json on the current tree; prints one status line per check
tier=${1:-quick}; par=${2:-4}
cd /verif
python3 -c "import json; print('\n'.join(c['property_id'] for c in json.load(open('MANIFEST.json'))['checks']))" | \
  xargs -P $par -I{} sh -c "timeout 20000 ./check {} --tier $tier > _build/runall_{}.log 2>&1; echo \"{} exit=\$? \$(grep -c '^KNOWN-FINDING' _build/runall_{}.log) known \$(grep -c '^VIOLATION' _build/runall_{}.log) violations \$(tail -1 _build/runall_{}.log | cut -c1-80)\""
