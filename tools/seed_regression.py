#!/usr/bin/env python3
"""tools/seed_regression.py [name-prefix ...] : for every kept seeded defect under /verif/seeded/<name>/ (patch.diff, demo.py, notes.md): apply the
patch to /repo's working tree (never committed), run the quick check of its property (and of the properties listed in meta.json 'also'), undo the
patch, and record the outcome in meta.json.  /repo must be clean before and is clean after."""
import json
import os
import re
import subprocess
import sys

V = '/verif'
SD = os.path.join(V, 'seeded')


def sh(cmd, **kw):
    return subprocess.run(cmd, shell=True, capture_output=True, text=True, **kw)


def main():
    want = sys.argv[1:]
    if sh('git -C /repo status --porcelain').stdout.strip():
        sys.exit('/repo is not clean')
    head = sh('git -C /repo rev-parse --short HEAD').stdout.strip()
    rows = []
    for name in sorted(os.listdir(SD)):
        if want and not any(name.startswith(w) for w in want):
            continue
        d = os.path.join(SD, name)
        patch = os.path.join(d, 'patch.diff')
        if not os.path.exists(patch):
            continue
        mp = os.path.join(d, 'meta.json')
        meta = json.load(open(mp)) if os.path.exists(mp) else {}
        pid = name.split('-')[0]
        meta.setdefault('property', pid)
        meta.setdefault('also', [])
        files = re.findall(r'^\+\+\+ b/(\S+)', open(patch).read(), re.M)
        meta['files'] = files
        notes = os.path.join(d, 'notes.md')
        if os.path.exists(notes) and 'summary' not in meta:
            txt = open(notes).read()
            m = re.search(r'## The change\s+(.*?)(?:\n## |\Z)', txt, re.S)
            meta['summary'] = ' '.join((m.group(1) if m else txt)[:700].split())
        ap = sh('git -C /repo apply --check %s' % patch)
        if ap.returncode != 0:
            meta['applies_to_head'] = False
            meta['note'] = 'the patch no longer applies to /repo HEAD %s (a later fix: commit touched the same lines): %s' % (head, ap.stderr.strip()[:200])
            json.dump(meta, open(mp, 'w'), indent=1)
            rows.append((name, 'does not apply', ''))
            continue
        meta['applies_to_head'] = True
        sh('git -C /repo apply %s' % patch)
        saved = {}
        for c in [pid] + list(meta['also']):
            ep = os.path.join(V, 'evidence', c + '.json')
            saved[ep] = open(ep).read() if os.path.exists(ep) else None
        try:
            demo = sh('PYTHONPATH=/repo/src /venv/bin/python %s' % os.path.join(d, 'demo.py'), timeout=300)
            meta['demo_fails_with_patch'] = demo.returncode != 0
            res = {}
            for c in [pid] + list(meta['also']):
                r = sh('cd %s && timeout 3000 ./check %s --tier quick' % (V, c))
                lines = [l for l in r.stdout.split('\n') if l.startswith('VIOLATION') or l.startswith(c + ' ')]
                caught = any(l.startswith('VIOLATION') for l in lines)
                concrete = any(l.startswith('VIOLATION') and 'no-failing-input-found' not in l for l in lines)
                res[c] = {'caught': caught, 'with_failing_input': concrete, 'lines': [l[:200] for l in lines][:4]}
            meta['checks'] = res
            meta['repo_head'] = head
        finally:
            sh('git -C /repo checkout -- .')
            for ep, txt in saved.items():      # evidence files describe the unchanged tree: put them back
                if txt is not None:
                    open(ep, 'w').write(txt)
        json.dump(meta, open(mp, 'w'), indent=1)
        rows.append((name, ' '.join('%s:%s' % (c, 'CAUGHT' + ('' if v['with_failing_input'] else '(no input)') if v['caught'] else 'missed') for c, v in meta['checks'].items()),
                     'demo fails' if meta['demo_fails_with_patch'] else 'DEMO PASSES?'))
        print(rows[-1], flush=True)
    if sh('git -C /repo status --porcelain').stdout.strip():
        sys.exit('/repo left dirty!')


main()
