#!/usr/bin/env python3
"""tools/mkprops.py <Cxx> <title> <imports> <proof-file> name1 name2 ...  : writes coq/Properties/Cxx.v restating the named theorems
of a Proofs file verbatim (statement copied, closed by `exact`), followed by Print Assumptions."""
import re, sys
pid, title, imports, pf = sys.argv[1:5]
names = sys.argv[5:]
src = open('/verif/coq/' + pf).read()
out = ['(* %s — %s *)' % (pid, title), 'From H2 Require Import %s.' % imports, '']
for n in names:
    m = re.search(r'((?:\(\*(?:[^*]|\*(?!\)))*\*\)\s*)*)(Theorem|Lemma|Corollary)\s+' + re.escape(n) + r'\b(.*?)\nProof\.', src, re.S)
    if not m:
        sys.exit('not found: ' + n)
    comment, kind, rest = m.group(1), m.group(2), m.group(3)
    # split binders from statement at the first ' :' at depth 0
    depth = 0; pos = None
    for i, ch in enumerate(rest):
        if ch in '([{': depth += 1
        elif ch in ')]}': depth -= 1
        elif ch == ':' and depth == 0 and rest[i:i+2] != ':=':
            pos = i; break
    binders, stmt = rest[:pos].strip(), rest[pos+1:].strip().rstrip('.')
    if comment.strip():
        out.append(comment.strip())
    if binders:
        out.append('Theorem %s_%s :\n  forall %s,\n  %s.' % (pid, n, binders, stmt))
    else:
        out.append('Theorem %s_%s :\n  %s.' % (pid, n, stmt))
    out.append('Proof. exact %s. Qed.\n' % (n if not binders else '(fun ' + ' '.join(re.sub(r'\([^)]*:[^)]*\)', lambda mm: mm.group(0).split(':')[0].strip('( '), binders).split()) + ' => ' + n + ' ' + ' '.join(re.sub(r'\([^)]*:[^)]*\)', lambda mm: mm.group(0).split(':')[0].strip('( '), binders).split()) + ')'))
for n in names:
    out.append('Print Assumptions %s_%s.' % (pid, n))
open('/verif/coq/Properties/%s.v' % pid, 'w').write('\n'.join(out) + '\n')
